"""C14  Sparse images round-trip and overlap counting is exact.

Decided (necessary conditions): R1 every self.m(...) call in sparseframe.py fits m's signature (sort()/sort_by()
must be callable at all); R2 reorder applies one permutation to row, col and every pixel array; R3 the two-pointer
merges advance the pointer of the smaller key, compare the keys directly (no sign of a wrapped unsigned
difference), loop while both frames have pixels, and record a hit for equal keys only; mask_to_coo rejects shapes
that do not fit the 16-bit indices; R4 sibling callers of (sparse_overlaps -> compress_duplicates) agree on the
guard between the two kernels and size the histogram for the largest label; R5 index dtypes agree between the
Python constructors and the .pyf.
Not decided: exact round trip of values, exact counts.
"""
import ast

from engine import cfront, crules, iface, pyfacts
from engine.cfront import estr, estr_top, ewalk, swalk
from engine.poly import Poly
from engine.pyfacts import src

PID = "C14"
SPF = "ImageD11/sparseframe.py"
SP = "src/sparse_image.c"


def run(R):
    R.assume("sparse frames handed to the overlap kernels are sorted row-major without duplicates (as the repo's converters produce them)")
    m = pyfacts.module(R, SPF)
    if R.want("C14.R1"):
        r1(R, m)
    if R.want("C14.R2"):
        r2(R, m)
    if R.want("C14.R3"):
        r3(R)
    if R.want("C14.R4"):
        r4(R, m)
    if R.want("C14.R5"):
        r5(R, m)
    if R.want("C14.R6"):
        r6(R, m)
    if R.want("C14.R7"):
        r7(R, m)
    if R.want("C14.R8"):
        r8(R, m)
    if R.want("C14.R9"):
        r9(R, m)


def r1(R, m):
    R.rule("C14.R1", "every self.<method>(...) call inside a class of sparseframe.py matches the method's signature (positional count, "
                     "keyword names)")
    n = 0
    for cname, cls in m.classes.items():
        methods = {f.name: f for f in cls.body if isinstance(f, ast.FunctionDef)}
        for mname, fn in methods.items():
            if not fn.args.args:
                continue
            selfname = fn.args.args[0].arg
            for c in ast.walk(fn):
                if not (isinstance(c, ast.Call) and isinstance(c.func, ast.Attribute) and isinstance(c.func.value, ast.Name) and c.func.value.id == selfname):
                    continue
                callee = methods.get(c.func.attr)
                if callee is None:
                    continue
                if any(isinstance(d, ast.Name) and d.id in ("staticmethod", "classmethod") for d in callee.decorator_list):
                    continue
                n += 1
                a = callee.args
                params = [x.arg for x in a.args][1:]
                nreq = len(params) - len(a.defaults)
                npos = len(c.args)
                kws = [k.arg for k in c.keywords if k.arg]
                star = any(isinstance(x, ast.Starred) for x in c.args) or any(k.arg is None for k in c.keywords)
                ok = star or ((npos <= len(params) or a.vararg is not None) and all((k in params or a.kwarg is not None or k in [x.arg for x in a.kwonlyargs]) for k in kws)
                              and npos + len([k for k in kws if k in params]) >= nreq)
                passes_self = any(isinstance(x, ast.Name) and x.id == selfname for x in c.args)
                R.check(ok and not passes_self, "C14.R1", SPF, c.lineno, "%s.%s" % (cname, mname), "self.%s(%s) against %s(%s)" % (c.func.attr, ", ".join(src(x) for x in c.args), c.func.attr, ", ".join(params)),
                        "the bound method is called with %d positional argument(s)%s but takes %d: TypeError on every call, so %s() can never establish its order" % (
                            npos, " (self passed again)" if passes_self else "", len(params), mname))
    if n < 3:
        R.fail("C14.R1 examined %d self-calls, expected at least 3" % n)


def r2(R, m):
    R.rule("C14.R2", "sparse_frame.reorder applies the same 'order' to row, col and every array in pixels, in place")
    fn = pyfacts.unroll_literal_loops(pyfacts.clone(m.func("sparse_frame.reorder")))     # 'for ary in (self.row, self.col): ary[:] = ary[order]' reads as its two stores
    order = fn.args.args[1].arg
    st = [s for s in ast.walk(fn) if isinstance(s, ast.Assign) and isinstance(s.targets[0], ast.Subscript)]
    tg = {}
    for s in st:
        t = s.targets[0]
        full = isinstance(t.slice, ast.Slice) and t.slice.lower is None and t.slice.upper is None
        tg[src(t.value)] = (full, src(s.value))
    for name in ("self.row", "self.col"):
        R.check(name in tg and tg[name] == (True, "%s[%s]" % (name, order)), "C14.R2", SPF, fn.lineno, "sparse_frame.reorder", "%s[:] = %s[%s]" % (name, name, order),
                "%s is not permuted with the common order: pixel values are detached from their coordinates" % name)
    loops = [l for l in ast.walk(fn) if isinstance(l, ast.For) and "self.pixels" in src(l.iter)]
    R.check(len(loops) == 1 and not any(isinstance(x, (ast.Break, ast.Continue)) for x in ast.walk(loops[0])), "C14.R2", SPF, fn.lineno, "sparse_frame.reorder", "loop over all pixel arrays",
            "some pixel arrays are not reordered")
    if loops:
        px = [x.id for x in ast.walk(loops[0].target) if isinstance(x, ast.Name)][-1]
        R.check(px in tg and tg[px] == (True, "%s[%s]" % (px, order)), "C14.R2", SPF, loops[0].lineno, "sparse_frame.reorder", "%s[:] = %s[%s]" % (px, px, order),
                "pixel arrays are permuted with a different selector than the coordinates")
    for meth, fun in (("sort", "lexsort"), ("sort_by", "argsort")):
        f2 = m.func("sparse_frame.%s" % meth)
        u = ast.unparse(f2)
        R.check("np.%s(" % fun in u, "C14.R2", SPF, f2.lineno, "sparse_frame.%s" % meth, "order from np.%s" % fun, "order is not a permutation from %s" % fun)
    f2 = m.func("sparse_frame.sort")
    R.check("np.lexsort((self.col, self.row))" in ast.unparse(f2), "C14.R2", SPF, f2.lineno, "sparse_frame.sort", "lexsort((col, row)): row-major order", "sort keys are not (row major, col minor)")


class NotEvaluable(Exception):
    pass


def case_effects(body, keys, case, defs=None):
    """finite case analysis of a merge loop body.  keys: list of (left text, right text) key pairs compared by the body; case: one
    ordering '<' / '=' / '>' per pair.  Evaluates every branch condition built from comparisons of those pairs (&&, ||, !) under the
    case and returns the texts of the expression statements that execute, in order.  Raises NotEvaluable for any other condition."""
    live = dict(defs or {})       # + temporaries of this iteration (r1 = i1[p1]; ...), dropped when what they read is advanced
    norm = lambda e: estr(cfront.esubst(e, live)).replace("(int)", "").replace("(unsigned int)", "").replace(" ", "")
    # names the body only ever assigns with a plain '=' from a side-effect free expression and that are not advanced: temporaries
    advanced = set()
    assigned = {}
    for st_, x_ in cfront.all_exprs(body):
        if x_.k == "incdec" and x_.a[0].k == "var":
            advanced.add(x_.a[0].name)
        if x_.k == "asg" and x_.a[0].k == "var":
            if x_.op != "=":
                advanced.add(x_.a[0].name)
            else:
                assigned.setdefault(x_.a[0].name, []).append(x_.a[1])
    temps = set(n_ for n_, rhs in assigned.items() if n_ not in advanced and all(
        not any(y.k in ("asg", "incdec", "call") for y in ewalk(r_)) for r_ in rhs))
    import re as _re
    temps -= set(w for l_, r_ in keys for w in _re.findall(r"[A-Za-z_]\w*", l_ + " " + r_))    # the compared quantities themselves keep their names
    table = {}
    for (l, r), c in zip(keys, case):
        table[(l.replace(" ", ""), r.replace(" ", ""))] = c

    def ev(e):
        while e.k == "cast":
            e = e.a[0]
        if e.k == "bin" and e.op in ("&&", "||"):
            a = ev(e.a[0])
            if e.op == "&&":
                return a and ev(e.a[1])
            return a or ev(e.a[1])
        if e.k == "un" and e.op == "!":
            return not ev(e.a[0])
        if e.k == "bin" and e.op in ("<", ">", "<=", ">=", "==", "!="):
            l, r = norm(e.a[0]), norm(e.a[1])
            l, r = l.strip("()"), r.strip("()")
            rel = None
            if (l, r) in table:
                rel = table[(l, r)]
            elif (r, l) in table:
                rel = {"<": ">", ">": "<", "=": "="}[table[(r, l)]]
            if rel is None:
                raise NotEvaluable(estr(e))
            return {"<": rel == "<", ">": rel == ">", "<=": rel in "<=", ">=": rel in ">=", "==": rel == "=", "!=": rel != "="}[e.op]
        raise NotEvaluable(estr(e))
    out = []

    def run(st):
        if st is None:
            return
        if st.k in ("block", "multi"):
            for x in st.body:
                run(x)
        elif st.k == "if":
            run(st.then if ev(st.cond) else st.els)
        elif st.k == "expr":
            e_ = st.e
            if e_.k == "asg" and e_.op == "=" and e_.a[0].k == "var" and e_.a[0].name in temps:
                live[e_.a[0].name] = cfront.esubst(e_.a[1], live)
                return
            out.append(estr_top(e_).replace(" ", ""))
            # a cursor moved: temporaries loaded through it no longer describe the current heads
            moved = set(x_.a[0].name for x_ in ewalk(e_) if x_.k in ("incdec", "asg") and x_.a[0].k == "var")
            for n_ in [n_ for n_, rhs in live.items() if n_ in temps and any(y.k == "var" and y.name in moved for y in ewalk(rhs))]:
                del live[n_]
        elif st.k in ("decl", "null"):
            pass
        else:
            raise NotEvaluable("statement %s" % st.k)
    run(body)
    return out


def _merge_entry(R, f, loop, names, cursors):
    """state of the cursors when the merge loop is entered, decided on small models: the statements before the loop (scalar
    assignments and branches on the arguments / first and last pixels) are evaluated for every pair of sorted frames with 1..3
    pixels on a 3 x 2 grid (and for empty frames); the merge finds every common pixel only if it starts at or before the first
    one in both frames with nhit == 0"""
    import itertools
    import networkx as nx
    i1, j1, nnz1, i2, j2, nnz2 = names
    cfg = f.cfg
    heads = [n for n in cfg.find_nodes(lambda n: n.k == "join" and n.s is loop)]
    R.shape(len(heads) == 1, "C14.R3", SP, f.name, "the CFG node of the merge loop's head")
    head = heads[0]
    body_ids = nx.descendants(cfg.g, head.id) & nx.ancestors(cfg.g, head.id)
    before = (nx.ancestors(cfg.g, head.id) - body_ids - {head.id}) & cfg.reachable()
    stores = []
    for nid in sorted(before):
        n = cfg.nodes[nid]
        if n.k == "expr" and n.e is not None:
            for x in ewalk(n.e):
                if (x.k == "asg" or x.k == "incdec") and x.a[0].k == "var" and x.a[0].name in cursors:
                    stores.append((n, x))
    R.shape(len(stores) >= 3, "C14.R3", SP, f.name, "the initialisation of p1, p2 and nhit before the merge loop (found %d stores)" % len(stores))
    plain = all(x.k == "asg" and x.op == "=" and x.a[1].k == "int" and x.a[1].val == 0 and not cfg.guards(n.id) for n, x in stores)
    if plain:
        R.inst("C14.R3", "%s:%s p1 = p2 = nhit = 0 unconditionally before the merge loop" % (SP, f.name))
        return
    pixels = [(r, c) for r in range(3) for c in range(2)]
    frames = [[]] + [list(x) for n_ in (1, 2, 3) for x in itertools.combinations(pixels, n_)]
    witness = None
    nmodels = 0
    try:
        for fa in frames:
            for fb in frames:
                env = {i1: [p[0] for p in fa], j1: [p[1] for p in fa], nnz1: len(fa), i2: [p[0] for p in fb], j2: [p[1] for p in fb], nnz2: len(fb)}
                nid = cfg.entry.id
                steps = 0
                left = False
                while nid != head.id:
                    steps += 1
                    if steps > 500:
                        raise crules.NotEvaluable("the code before the merge loop does not reach it in 500 steps")
                    n = cfg.nodes[nid]
                    succ = list(cfg.g.successors(nid))
                    if n.k == "cond":
                        v = bool(crules.ceval(n.e, env))
                        succ = [s_ for s_ in succ if cfg.nodes[s_].k == "assume" and cfg.nodes[s_].pol == v]
                    elif n.k == "expr" and n.e is not None:
                        _exec(n.e, env)
                    elif n.k == "return" or nid == cfg.exit.id:
                        left = True
                        break
                    elif n.k not in ("entry", "assume", "join", "decl"):
                        raise crules.NotEvaluable("statement kind %s before the merge loop" % n.k)
                    if len(succ) != 1:
                        raise crules.NotEvaluable("%d successors after %r" % (len(succ), n))
                    nid = succ[0]
                nmodels += 1
                common = sorted(set(fa) & set(fb))
                if left:
                    if common:
                        witness = (fa, fb, common[0], "the function returns before the merge")
                        break
                    continue
                for cvar in cursors:
                    if cvar not in env:
                        raise crules.NotEvaluable("%s is not assigned before the merge loop" % cvar)
                if common and (env[cursors[0]] > fa.index(common[0]) or env[cursors[1]] > fb.index(common[0]) or env[cursors[2]] != 0):
                    witness = (fa, fb, common[0], "%s = %s, %s = %s, %s = %s at the loop head" % (cursors[0], env[cursors[0]], cursors[1], env[cursors[1]], cursors[2], env[cursors[2]]))
                    break
                if not common and env[cursors[2]] != 0:
                    witness = (fa, fb, None, "%s = %s at the loop head" % (cursors[2], env[cursors[2]]))
                    break
            if witness:
                break
    except crules.NotEvaluable as ex:
        R.shape(False, "C14.R3", SP, f.name, "the statements before the merge loop as assignments / branches on the arguments (%s)" % ex)
    n0, x0 = [(n, x) for n, x in stores if not (x.k == "asg" and x.op == "=" and x.a[1].k == "int" and x.a[1].val == 0 and not cfg.guards(n.id))][0]
    R.check(witness is None, "C14.R3", SP, n0.line, f.name, "'%s' before the merge loop: every common pixel of every pair of small sorted frames is still reached (%d models)" % (
        estr_top(n0.e), nmodels),
        "the merge does not start at the first pixels: for frame 1 = %s and frame 2 = %s (sorted (row, col) lists) %s, and the common pixel %s is never "
        "reported" % (witness[0] if witness else "", witness[1] if witness else "", witness[3] if witness else "", witness[2] if witness else ""))


def _exec(e, env):
    """effect of an expression statement on the scalar environment (assignments, ++ / --); anything else is not evaluable"""
    if e.k == "asg" and e.a[0].k == "var":
        v = crules.ceval(e.a[1], env)
        if e.op == "=":
            env[e.a[0].name] = v
        elif e.op in ("+=", "-="):
            env[e.a[0].name] = env[e.a[0].name] + (v if e.op == "+=" else -v)
        else:
            raise crules.NotEvaluable(estr(e))
        return
    if e.k == "incdec" and e.a[0].k == "var":
        env[e.a[0].name] = env[e.a[0].name] + (1 if e.op == "++" else -1)
        return
    if e.k == "cast":
        return _exec(e.a[0], env)
    raise crules.NotEvaluable("statement '%s'" % estr(e))


def r3(R):
    R.rule("C14.R3", "merge kernels: loop while both frames have pixels; the frame with the smaller key advances; equal keys record one hit and "
                     "advance both; keys are compared directly (never through the sign of an unsigned difference); mask_to_coo rejects "
                     "shapes beyond 65535; compress_duplicates writes its count for the last run")
    tus = cfront.load(R.root, files=["sparse_image.c"])
    # -- no sign-of-wrapped-difference anywhere in the file
    nsub = 0
    for f in cfront.all_funcs(tus):
        for st, x in cfront.all_exprs(f.body):
            if x.k == "cast" and x.op in ("IntegralCast", "CStyleCastExpr", None) or (x.k == "cast" and x.val in ("explicit", "implicit")):
                inner = x.a[0]
                tgt = (x.ty or "")
                if inner.k == "bin" and inner.op == "-" and "unsigned" in (inner.ty or "") and "unsigned" not in tgt and tgt.strip() in ("int", "long", "short", "long long"):
                    nsub += 1
                    R.violation("C14.R3", SP, x.line, f.name, estr(x), "the difference of two unsigned keys is reinterpreted as signed: for keys more than 2^31 apart "
                                "(rows >= 32768 apart in a packed row<<16|col key) the sign is wrong and the merge walks off the wrong frame")
    R.inst("C14.R3", "no signed reinterpretation of an unsigned difference in sparse_image.c (%d found)" % nsub, ok=nsub == 0)
    # -- sparse_overlaps
    f = cfront.find_func(tus, "sparse_overlaps", SP)
    pn = [p.name for p in f.params]
    i1, j1, k1, nnz1, i2, j2, k2, nnz2 = pn
    wl = [s for s in swalk(f.body) if s.k == "while"]
    R.shape(len(wl) == 1, "C14.R3", SP, "sparse_overlaps", "the merge loop")
    conds = set(crules.rel_norm(e, p) for e, p in _conj(wl[0].cond))
    R.check(conds == {("<", "p1", nnz1), ("<", "p2", nnz2)}, "C14.R3", SP, wl[0].line, "sparse_overlaps", "while (p1 < nnz1) && (p2 < nnz2)",
            "the merge can read past the end of a frame or stop early: %s" % sorted(conds))
    # finite case analysis: the body only branches on the orderings of (row1, row2) and (col1, col2); run it under each of the 9 cases
    keys = [("%s[p1]" % i1, "%s[p2]" % i2), ("%s[p1]" % j1, "%s[p2]" % j2)]
    inc = lambda v: {"%s++" % v, "++%s" % v, "%s+=1" % v}
    hit_stores = {"%s[nhit]=p1" % k1, "%s[nhit]=p2" % k2}
    try:
        for rc in "<=>":
            for cc in "<=>":
                eff = case_effects(wl[0].body, keys, (rc, cc))
                adv1 = sum(1 for e_ in eff if e_ in inc("p1"))
                adv2 = sum(1 for e_ in eff if e_ in inc("p2"))
                hits_ = [e_ for e_ in eff if e_ in hit_stores]
                other = [e_ for e_ in eff if e_ not in inc("p1") | inc("p2") | hit_stores | inc("nhit")]
                first_smaller = rc == "<" or (rc == "=" and cc == "<")
                second_smaller = rc == ">" or (rc == "=" and cc == ">")
                want = (1, 0) if first_smaller else ((0, 1) if second_smaller else (1, 1))
                R.check((adv1, adv2) == want, "C14.R3", SP, wl[0].line, "sparse_overlaps", "rows %s, cols %s: p1 advances %d, p2 advances %d" % (rc, cc, adv1, adv2),
                        "a frame pointer advances although its pixel is not the smaller one (or equal pixels do not advance both frames): shared pixels are skipped, "
                        "counted twice, or the loop never ends")
                eq = rc == "=" and cc == "="
                R.check((sorted(hits_) == sorted(hit_stores) and sum(1 for e_ in eff if e_ in inc("nhit")) == 1) if eq else (not hits_ and not any(e_ in inc("nhit") for e_ in eff)),
                        "C14.R3", SP, wl[0].line, "sparse_overlaps", "rows %s, cols %s: hit recorded %s" % (rc, cc, sorted(hits_)),
                        "a hit is recorded for unequal pixels, not recorded for equal ones, or with the wrong indices")
                R.check(not other, "C14.R3", SP, wl[0].line, "sparse_overlaps", "no other effect in the merge body (%s)" % other, "the merge body does something else: %s" % other)
    except NotEvaluable as ex:
        R.shape(False, "C14.R3", SP, "sparse_overlaps", "a merge body that branches only on the orderings of (i1[p1], i2[p2]) and (j1[p1], j2[p2]) - found %s" % ex)
    # the merge starts at the first pixel of both frames with no hit recorded: every store to p1 / p2 / nhit that can reach the loop
    # from the function entry is '= 0'; a conditional store of something else (a shortcut that skips the merge) is decided on small
    # models: sorted frames of 1..3 pixels over a 3 x 2 grid - if the shortcut's condition holds for two frames that share a pixel,
    # that pixel is lost
    _merge_entry(R, f, wl[0], (i1, j1, nnz1, i2, j2, nnz2), ("p1", "p2", "nhit"))
    # -- coverlaps
    g = cfront.find_func(tus, "coverlaps", SP)
    wl = [s for s in swalk(g.body) if s.k == "while"]
    R.shape(len(wl) == 1, "C14.R3", SP, "coverlaps", "the merge loop")
    cfg = g.cfg
    keys = {}
    for st, x in cfront.all_exprs(wl[0].body):
        if x.k == "asg" and x.op == "=" and x.a[0].k == "var" and any(y.k == "bin" and y.op == "<<" for y in ewalk(x.a[1])):
            keys[x.a[0].name] = x.a[1]
    R.check(len(keys) == 2, "C14.R3", SP, wl[0].line, "coverlaps", "two packed keys (row << 16) + col", "packed keys not found")
    for kname, e in keys.items():
        sh = [y for y in ewalk(e) if y.k == "bin" and y.op == "<<"]
        wide = sh and sh[0].a[0].k == "cast" and "unsigned int" in (sh[0].a[0].ty or "") and sh[0].a[1].k == "int" and sh[0].a[1].val == 16
        R.check(bool(wide), "C14.R3", SP, e.line, "coverlaps", "%s = ((uint32_t)row << 16) + col" % kname, "the row is shifted in a 16-bit/int type: keys of rows >= 32768 overflow")
    if len(keys) == 2:
        ka, kb = sorted(keys)     # p1, p2
        try:
            okc = True
            detail = []
            for rc in "<=>":
                eff = case_effects(wl[0].body, [(ka, kb)], (rc,))
                a1 = sum(1 for e_ in eff if e_ in ("i1++", "++i1", "i1+=1"))
                a2 = sum(1 for e_ in eff if e_ in ("i2++", "++i2", "i2+=1"))
                want = {"<": (1, 0), "=": (1, 1), ">": (0, 1)}[rc]
                detail.append("%s:%s" % (rc, (a1, a2)))
                okc = okc and (a1, a2) == want
                counted = [e_ for e_ in eff if e_.startswith(g.params[8].name + "[") and ("+=1" in e_ or "++" in e_)]
                okc = okc and (len(counted) == 1) == (rc == "=")
            R.check(okc, "C14.R3", SP, wl[0].line, "coverlaps", "i1++ iff key1 <= key2, i2++ iff key2 <= key1 (direct comparisons of the keys) %s" % detail,
                    "the merge does not advance by direct comparison of the two packed keys (or the overlap is counted for unequal keys)")
        except NotEvaluable as ex:
            R.shape(False, "C14.R3", SP, "coverlaps", "a merge body that branches only on the ordering of the two packed keys - found %s" % ex)
    # -- mask_to_coo range checks
    h = cfront.find_func(tus, "mask_to_coo", SP)
    conds = [crules.rel_norm(e, True) for s in swalk(h.body) if s.k == "if" for e, p in _disj(s.cond)]
    ns, nf = h.params[1].name, h.params[2].name
    for v in (ns, nf):
        R.check(("<", "65535", v) in conds and ("<", v, "1") in conds, "C14.R3", SP, h.line, "mask_to_coo", "%s rejected unless 1 <= %s <= 65535" % (v, v),
                "an image dimension beyond the 16-bit coordinate range is accepted: coordinates wrap")
    # -- mask_to_coo: the mask arrives as signed 8-bit (f2py narrows the caller's bool / uint8 / int array): 'selected' must mean
    # non-zero; an ordering test ( > 0 ) would drop the values 128..255 that the Python side ( mask > 0 ) counts
    mparam = h.params[0]
    ntests = 0
    for st in swalk(h.body):
        if st.k in ("if", "while", "for") and st.cond is not None:
            for e_, pol_ in _conj(st.cond) if st.cond.k == "bin" and st.cond.op == "&&" else [(st.cond, True)]:
                if not any(x.k == "idx" and estr(x.a[0]) == mparam.name for x in ewalk(e_)):
                    continue
                ntests += 1
                rl = crules.rel_lin(e_, True)
                okm = rl is not None and rl[0] in ("!=", "==") and len(rl[1].atoms()) == 1 and rl[1].is_const() is False and \
                    all(isinstance(a_, tuple) and a_[0] == "load" and a_[1].startswith(mparam.name + "[") for a_ in rl[1].atoms()) and \
                    rl[1].without(list(rl[1].atoms())[0]).is_zero()
                R.check(okm, "C14.R3", SP, e_.line or st.line, "mask_to_coo", "mask test %s is (in)equality with zero" % estr(e_),
                        "the %s mask element is tested with an ordering or against a non-zero value: mask values with the top bit set "
                        "(128..255 in the caller's array, negative here) are selected by the Python side (mask > 0) but not by the kernel" % (mparam.ty or "int8"))
    R.shape(ntests >= 2, "C14.R3", SP, "mask_to_coo", "the mask tests of the counting and the filling pass")
    # -- compress_duplicates writes the last run and returns c+1
    cd = cfront.find_func(tus, "compress_duplicates", SP)
    top = cd.body.body if cd.body.k == "block" else []
    loops_at = [n_ for n_, st in enumerate(top) if st.k == "for"]
    R.shape(bool(loops_at), "C14.R3", SP, "compress_duplicates", "the run-length loop at the end of the function")
    runloop = top[loops_at[-1]]
    tail_st = top[loops_at[-1] + 1:]
    # stores of one run inside the loop: (array, value) pairs written at the write position
    def run_stores(stmts):
        out = {}
        pos = set()
        for st in stmts:
            for s2 in swalk(st):
                if s2.k == "expr" and s2.e.k == "asg" and s2.e.op == "=" and s2.e.a[0].k == "idx" and s2.e.a[0].a[1].k == "var" and s2.e.a[1].k == "var":
                    out[estr(s2.e.a[0].a[0])] = s2.e.a[1].name
                    pos.add(s2.e.a[0].a[1].name)
        return out, pos
    inl, ipos = run_stores([runloop.body])
    tl, tpos = run_stores(tail_st)
    R.shape(len(inl) == 3 and len(ipos) == 1, "C14.R3", SP, "compress_duplicates", "the three stores of a finished run (label1, label2, count) at one write position")
    cpos = list(ipos)[0]
    # value returned = write position + 1 after the last run was written
    val = Poly.atom(cpos)
    ret = None
    for st in tail_st:
        if st.k == "expr" and st.e.k == "incdec" and st.e.a[0].k == "var" and st.e.a[0].name == cpos:
            val = val + (1 if st.e.op == "++" else -1)
        elif st.k == "expr" and st.e.k == "asg" and st.e.a[0].k == "var" and st.e.a[0].name == cpos and st.e.op in ("+=", "-=") and st.e.a[1].k == "int":
            val = val + (st.e.a[1].val if st.e.op == "+=" else -st.e.a[1].val)
        elif st.k == "return" and st.e is not None:
            r_ = crules.lin(st.e)
            ret = r_.subs({cpos: val}) if r_ is not None else None
    R.check(tl == inl and tpos == ipos and ret is not None and ret == Poly.atom(cpos) + 1, "C14.R3", SP, cd.line, "compress_duplicates",
            "last run written: i[c]=ik; j[c]=jk; oi[c]=t; c++",
            "the last (label1,label2) pair or its count is not written, or the returned number of pairs is not the write position + 1: tail stores %s, return %s" % (tl, ret))
    # the histogram bound: vmax = max over k = 0..n-1 of i[k] and j[k].  The scan must see element 0 of BOTH arrays (it is the start
    # value for one of them only): a scan that starts at k = 1 after 'vmax = i[0]' never looks at j[0], and when that is the largest
    # label tmp[j[0]] is neither zeroed nor summed - its stale content becomes a write position in oi / oj
    i_, j_ = cd.params[0].name, cd.params[1].name
    vm = [st for st in swalk(cd.body) if st.k == "for" and any(x.k == "asg" and x.a[0].k == "var" and x.a[0].name == "vmax" for s2, x in cfront.all_exprs(st.body))]
    R.shape(len(vm) == 1, "C14.R3", SP, "compress_duplicates", "the loop that finds the largest label (vmax)")
    from engine import omp as _omp
    hd = _omp.loop_header(vm[0])
    R.shape(hd is not None, "C14.R3", SP, "compress_duplicates", "a canonical loop header for the vmax scan")
    lo_ = crules.lin(hd[1])
    scanned = set(estr(x.a[0]) for s2, x in cfront.all_exprs(vm[0].body) if x.k == "idx" and estr(x.a[1]) == hd[0])
    inits = [x for s2, x in cfront.all_exprs(cd.body) if x.k == "asg" and x.op == "=" and x.a[0].k == "var" and x.a[0].name == "vmax" and (x.line or 0) < (vm[0].line or 0)]
    seeded = set(estr(y.a[0]) for x in inits for y in ewalk(x.a[1]) if y.k == "idx" and estr(y.a[1]) == "0")
    covered0 = set(scanned) if (lo_ is not None and lo_.is_const() and lo_.const_value() == 0) else seeded
    R.check({i_, j_} <= scanned and {i_, j_} <= covered0, "C14.R3", SP, vm[0].line, "compress_duplicates",
            "vmax scans %s from k = %s (element 0 seen for %s)" % (sorted(scanned), estr(hd[1]), sorted(covered0)),
            "the scan for the largest label does not look at element 0 of %s: when that label is the largest, the histogram cell it indexes "
            "is never zeroed nor summed and its stale content is used as a write position - writes outside oi / oj and a garbage table" % (
                sorted({i_, j_} - covered0) or sorted({i_, j_} - scanned)))
    # every other return: a count that can be positive promises that many (label1, label2, count) triples - the count array (third
    # argument) must have been written on that path.  'return 0' (constant) promises nothing.
    oi = cd.params[2].name
    cfg = cd.cfg
    oi_stores = [n_ for n_ in cfg.find_nodes(lambda n_: n_.k == "expr" and n_.e is not None and n_.e.k == "asg" and n_.e.a[0].k == "idx"
                                             and estr(n_.e.a[0].a[0]) == oi)]
    for rn in cfg.find_nodes(lambda n_: n_.k == "return"):
        if rn.e is None or (rn.e.k == "int" and rn.e.val == 0):
            continue
        doms = set(cfg.dominators(rn.id))
        if any(n_.id in doms for n_ in oi_stores):
            continue
        # can the value be positive under the conditions of the path?  facts: guards as linear facts; the value as a linear form
        val_ = crules.lin(rn.e)
        facts = [crules.rel_lin(e_, pol_) for e_, pol_ in cfg.guards(rn.id)]
        positive_possible = True
        if val_ is not None and val_.is_const() and val_.const_value() <= 0:
            positive_possible = False
        for fct in facts:
            if fct is None or val_ is None:
                continue
            op_, p_ = fct
            # guard of the form  -value >= 0  or  -value - 1 >= 0 ...: value <= 0 on this path
            # fact  c - value > 0  (value <= c - 1 for integers)  or  c - value >= 0  (value <= c)
            if op_ in (">=", ">") and (p_ + val_).is_const():
                c_ = (p_ + val_).const_value()
                if (op_ == ">" and c_ <= 1) or (op_ == ">=" and c_ <= 0):
                    positive_possible = False
        R.check(not positive_possible, "C14.R3", SP, rn.line, "compress_duplicates", "return %s%s without a store to %s[]" % (
            estr(rn.e), (" under " + " && ".join(("%s" if pol_ else "!(%s)") % estr(e_) for e_, pol_ in cfg.guards(rn.id))) if cfg.guards(rn.id) else "", oi),
            "the function returns a positive number of (label1, label2) pairs on a path that never writes their pixel counts into %s: the caller "
            "reads whatever the count buffer held (the count of the previous call's first pair, or uninitialised memory)" % oi)


def _c(t):
    return t.replace("(int)", "")


def _cs(g):
    return set((op, _c(a), _c(b)) for op, a, b in g)


def _conj(e):
    if e.k == "bin" and e.op == "&&":
        return _conj(e.a[0]) + _conj(e.a[1])
    return [(e, True)]


def _disj(e):
    if e.k == "bin" and e.op == "||":
        return _disj(e.a[0]) + _disj(e.a[1])
    return [(e, True)]


def r4(R, m):
    R.rule("C14.R4", "overlaps() and overlaps_linear.__call__ pass the same roles to sparse_overlaps then compress_duplicates and agree on the "
                     "guard between them (no overlap => compress_duplicates is not called); histogram sized for the largest label; "
                     "overlaps_matrix checks labels against npk before coverlaps")
    sibs = {"overlaps": m.func("overlaps"), "overlaps_linear.__call__": m.func("overlaps_linear.__call__")}
    info = {}
    for name, fn in sibs.items():
        cfg = pyfacts.PyCFG(fn)
        so = [c for c in ast.walk(fn) if isinstance(c, ast.Call) and (pyfacts.dotted(c.func) or "").endswith("sparse_overlaps")]
        cd = [c for c in ast.walk(fn) if isinstance(c, ast.Call) and (pyfacts.dotted(c.func) or "").endswith("compress_duplicates")]
        R.shape(len(so) == 1 and len(cd) == 1, "C14.R4", SPF, name, "one sparse_overlaps and one compress_duplicates call")
        asg = pyfacts.containing_stmt(so[0])
        npx = src(asg.targets[0]) if isinstance(asg, ast.Assign) else None
        n_cd = cfg.node_of(pyfacts.containing_stmt(cd[0]))
        guards = [(src(t), p) for t, p in cfg.guards(n_cd)]
        guarded = any(npx and npx in t and "0" in t for t, p in guards)
        # 'if npx == 0: return' before the call also guards it (assume node False dominates)
        info[name] = dict(npx=npx, guarded=guarded, so=so[0], cd=cd[0], guards=guards)
        roles = [src(a) for a in so[0].args]
        R.check(len(roles) == 6, "C14.R4", SPF, so[0].lineno, name, "sparse_overlaps(row1, col1, k1, row2, col2, k2)", "argument count changed")
        R.check("row" in roles[0] and "col" in roles[1] and "row" in roles[3] and "col" in roles[4], "C14.R4", SPF, so[0].lineno, name, "rows/cols in order: %s" % roles,
                "row and column arrays are passed in the wrong slots")
    g = [v["guarded"] for v in info.values()]
    for name, v in info.items():
        R.check(v["guarded"] or not any(g), "C14.R4", SPF, v["cd"].lineno, name, "compress_duplicates reached only when %s != 0 (%s)" % (v["npx"], v["guards"]),
                "the sibling caller returns early when the two frames share no pixel, this one calls compress_duplicates with empty arrays: f2py "
                "rejects zero-length arrays (ValueError) instead of reporting an empty overlap list")
    # histogram sizing
    # histogram sizing: the work array handed to compress_duplicates as 'tmp' (5th argument) has <largest label> + 1 cells.
    # Role based: the argument is followed to its allocation; 'max(...) + c' / '<n> + c' with a literal c >= 1 is accepted, c < 1
    # is the violation, any other form is not decided

    def alloc_size(fn, arg, cls_funcs=()):
        e = pyfacts.resolved(fn, arg, 3)
        if isinstance(e, ast.Attribute) and src(e.value) == "self":
            # an attribute: its (single) allocation anywhere in the class
            cands = [a_.value for f_ in cls_funcs for a_ in ast.walk(f_) if isinstance(a_, ast.Assign) and src(a_.targets[0]) == src(e)]
            if len(cands) != 1:
                return None, None
            e = cands[0]
        if isinstance(e, ast.Call) and (pyfacts.dotted(e.func) or "").split(".")[-1] in ("empty", "zeros") and e.args:
            sz = e.args[0]
            if isinstance(sz, ast.BinOp) and isinstance(sz.op, ast.Add):
                for x, y in ((sz.left, sz.right), (sz.right, sz.left)):
                    c = pyfacts.const_int(y)
                    if c is not None:
                        return x, c
            return sz, 0
        return None, None
    ov = sibs["overlaps"]
    cd_ov = info["overlaps"]["cd"]
    R.shape(len(cd_ov.args) >= 5, "C14.R4", SPF, "overlaps", "the five arguments of compress_duplicates")
    base, c = alloc_size(ov, cd_ov.args[4])
    R.shape(base is not None and isinstance(base, ast.Call) and src(base.func) in ("max", "np.maximum", "numpy.maximum"), "C14.R4", SPF, "overlaps",
            "the allocation of the histogram passed to compress_duplicates as max(n1, n2) + c (found %s)" % (src(base) if base is not None else None))
    R.check(c >= 1, "C14.R4", SPF, cd_ov.lineno, "overlaps", "histogram sized %s + %d" % (src(base), c), "histogram is too short for the largest label")
    lin = sibs["overlaps_linear.__call__"]
    cd_l = info["overlaps_linear.__call__"]["cd"]
    cls_funcs = [f_ for q_, f_ in m.funcs.items() if q_.startswith("overlaps_linear.")]
    base, c = alloc_size(lin, cd_l.args[4], cls_funcs) if len(cd_l.args) >= 5 else (None, None)
    R.shape(base is not None, "C14.R4", SPF, "overlaps_linear", "the allocation of the histogram passed to compress_duplicates")
    R.check(c >= 1 and "nnzmax" in src(base), "C14.R4", SPF, cd_l.lineno, "overlaps_linear", "histogram sized %s + %d" % (src(base), c),
            "histogram shorter than nnzmax + 1")
    call = sibs["overlaps_linear.__call__"]
    u = ast.unparse(call)
    def max_leaves(n):
        """max(max(a, b), max(c, d)) == max(a, b, c, d): the set of leaf expressions of nested max() calls"""
        if isinstance(n, ast.Call) and src(n.func) in ("max", "np.max", "numpy.max", "np.maximum", "numpy.maximum") and not n.keywords and n.args:
            args = n.args[0].elts if len(n.args) == 1 and isinstance(n.args[0], (ast.Tuple, ast.List)) else n.args
            out = set()
            for a in args:
                out |= max_leaves(a)
            return out
        return {pyfacts.resolved_src(call, n)}
    sized = [(a, max_leaves(a.value)) for a in ast.walk(call) if isinstance(a, ast.Assign) and len(a.targets) == 1 and isinstance(a.targets[0], ast.Name)
             and isinstance(a.value, ast.Call) and len(max_leaves(a.value)) > 1]
    grow = [i for i in ast.walk(call) if isinstance(i, ast.If) and "self.nnzmax" in src(i.test) and any("realloc" in src(b) for b in i.body)]
    R.shape(bool(sized) and bool(grow), "C14.R4", SPF, "overlaps_linear.__call__", "size = max(...) followed by 'if size > self.nnzmax: realloc'")
    need = {"len(row1)", "len(row2)", "n1", "n2"}
    okk = False
    for a, leaves in sized:
        t = a.targets[0].id
        for i in grow:
            tt = src(i.test).replace(" ", "")
            if tt in ("%s>self.nnzmax" % t, "self.nnzmax<%s" % t) and need <= leaves:
                okk = True
    R.check(okk, "C14.R4", SPF, call.lineno, "overlaps_linear.__call__", "nnzmax >= max(len(row1), len(row2), n1, n2) under checkmem (found %s)" % [sorted(l) for a, l in sized],
            "the work arrays are not grown for the largest label / frame")
    om = m.func("overlaps_matrix.__call__")
    asserts = [a for a in ast.walk(om) if isinstance(a, ast.Assert)]
    cov = [c for c in ast.walk(om) if isinstance(c, ast.Call) and (pyfacts.dotted(c.func) or "").endswith("coverlaps")]
    R.check(len(cov) == 1 and sum(1 for a in asserts if ".max()" in src(a.test) and a.lineno < cov[0].lineno) >= 2, "C14.R4", SPF, om.lineno, "overlaps_matrix.__call__",
            "labels1.max()-1 < n1 and labels2.max()-1 < n2 asserted before coverlaps", "labels are not checked against the matrix size before the kernel indexes mat[(l1-1)*n2 + l2-1]")
    R.check("mat = self.matmem[:n1 * n2]" in ast.unparse(om), "C14.R4", SPF, om.lineno, "overlaps_matrix.__call__", "mat has n1*n2 cells", "matrix memory not sized n1*n2")


def r5(R, m):
    R.rule("C14.R5", "row/col are 16-bit unsigned in the .pyf of the sparse kernels and in the Python constructors (sparse_frame default itype, "
                     "from_data_mask, from_data_cut)")
    fns, order = iface.crack(R.path("src/_cImageD11.pyf"))
    for rname, args in (("sparse_overlaps", ("i1", "j1", "i2", "j2")), ("coverlaps", ("row1", "col1", "row2", "col2")), ("mask_to_coo", ("i", "j")),
                        ("sparse_connectedpixels", ("i", "j")), ("sparse_localmaxlabel", ("i", "j")), ("tosparse_u16", ("row", "col")), ("tosparse_f32", ("row", "col"))):
        if rname not in fns:
            R.fail("routine %s missing from the .pyf" % rname)
        for a in args:
            v = fns[rname]["vars"].get(a)
            ks = (v or {}).get("kindselector", {})
            ok = v is not None and v.get("typespec") == "integer" and (ks.get("kind") or ks.get("*")) == "-2"
            R.check(ok, "C14.R5", "src/_cImageD11.pyf", 1, rname, "%s(%s): integer(kind=-2) = uint16" % (rname, a), "index argument is not declared 16-bit unsigned")
    init = m.func("sparse_frame.__init__")
    d = dict(zip([a.arg for a in init.args.args][-len(init.args.defaults):], init.args.defaults))
    R.check("itype" in d and src(d["itype"]) == "np.uint16", "C14.R5", SPF, init.lineno, "sparse_frame.__init__", "default itype np.uint16", "default index type differs from what the kernels take")
    for q in ("from_data_mask", "from_data_cut"):
        fn = m.func(q)
        u = ast.unparse(fn)
        R.check("np.uint16" in u and u.count("np.empty") >= 2, "C14.R5", SPF, fn.lineno, q, "row/col buffers allocated as np.uint16", "coordinate buffers are not uint16")
    fm = m.func("from_data_mask")
    bounded = set()
    for a_ in ast.walk(fm):
        if not isinstance(a_, ast.Assert):
            continue
        tests = a_.test.values if isinstance(a_.test, ast.BoolOp) and isinstance(a_.test.op, ast.And) else [a_.test]
        for t_ in tests:
            if isinstance(t_, ast.Compare) and len(t_.ops) == 1:
                l_, r_, op_ = t_.left, t_.comparators[0], type(t_.ops[0]).__name__
                if op_ in ("Gt", "GtE"):
                    l_, r_, op_ = r_, l_, {"Gt": "Lt", "GtE": "LtE"}[op_]
                c_ = pyfacts.const_int(r_)
                if c_ is not None and ((op_ == "Lt" and c_ <= 65535) or (op_ == "LtE" and c_ <= 65534)):
                    bounded.add(src(l_).replace(" ", ""))
    R.check({"data.shape[0]", "data.shape[1]"} <= bounded, "C14.R5", SPF, fm.lineno, "from_data_mask", "shape asserted < 65535",
            "images beyond the 16-bit coordinate range are not rejected (asserted: %s)" % sorted(bounded))


# --------------------------------------------------------------------------------------------------
# arrays that a kernel writes although the .pyf does not say so, confirmed by reading: every caller in the package allocates them
# itself with exactly the kernel's element type, so f2py never substitutes a converted copy
WRITTEN_OK = {
    ("coverlaps", "mat"): "overlaps_matrix.realloc allocates self.matrix as int32 zeros and passes that very array",
    ("tosparse_u16", "row"): "from_data_cut allocates row / col / val with the kernel's dtypes (np.empty(shape, uint16 / dtype of data))",
    ("tosparse_u16", "col"): "as row", ("tosparse_u16", "val"): "as row",
    ("tosparse_u32", "row"): "as tosparse_u16", ("tosparse_u32", "col"): "as tosparse_u16", ("tosparse_u32", "val"): "as tosparse_u16",
    ("tosparse_f32", "row"): "as tosparse_u16", ("tosparse_f32", "col"): "as tosparse_u16", ("tosparse_f32", "val"): "as tosparse_u16",
}
KERNELS14 = ("mask_to_coo", "tosparse_u16", "tosparse_u32", "tosparse_f32", "sparse_is_sorted", "sparse_overlaps", "compress_duplicates", "coverlaps")


def r6(R, m):
    """an array argument that the C function writes and the caller reads back must be declared intent(inout) / intent(out) /
    intent(inplace) in the .pyf.  With the default (input) intent f2py passes the caller's buffer only when dtype and layout
    happen to match and otherwise a converted temporary: the kernel's result is then silently lost (compress_duplicates on int64
    label pairs sorted a copy and the caller read its own unsorted arrays).  The Python callers of compress_duplicates make the
    pair arrays themselves as int32 (astype('i') / np.empty(.., 'i'))."""
    import os
    R.rule("C14.R6", "sparse kernels: every array the C function writes is intent(inout/out) in the .pyf (or a confirmed site whose callers "
                     "allocate it with the exact type); overlaps() / overlaps_linear hand compress_duplicates int32 pair arrays they own")
    tus = cfront.load(R.root, files=["sparse_image.c"])
    fns, order = iface.crack(os.path.join(R.root, "src/_cImageD11.pyf"))
    byname = {f.name: f for f in cfront.all_funcs(tus)}
    n = 0
    for name in KERNELS14:
        f, blk = byname.get(name), fns.get(name)
        R.shape(f is not None and blk is not None, "C14.R6", SP, name, "the function in sparse_image.c and its block in the .pyf")
        for k, prm in enumerate(f.params):
            v = blk["vars"].get(blk["args"][k]) if k < len(blk["args"]) else None
            if v is None or "dimension" not in v:
                continue
            written = False
            for st, x in cfront.all_exprs(f.body):
                tgt = x.a[0] if x.k in ("asg", "incdec") else None
                if tgt is None or tgt.k == "var":
                    continue
                b = tgt
                while b.k in ("idx", "cast"):
                    b = b.a[0]
                if b.k == "un" and b.op == "*":
                    b = b.a[0]
                if b.k == "var" and b.name == prm.name:
                    written = True
            if not written:
                continue
            n += 1
            intents = set(v.get("intent", []))
            ok = bool(intents & {"inout", "out", "inplace"}) or (name, prm.name) in WRITTEN_OK
            R.check(ok, "C14.R6", "src/_cImageD11.pyf", 1, name, "%s(%s): written by the C code, pyf intent %s" % (name, prm.name, sorted(intents)),
                    "the C function writes '%s' but the .pyf declares it an input: for an argument of another dtype (int64 labels) or layout "
                    "f2py passes a converted copy, the function works on the copy and the caller reads back its own unchanged array - wrong "
                    "overlap pairs with no error" % prm.name)
    # the two Python callers of compress_duplicates
    for q in ("overlaps", "overlaps_linear.__call__"):
        fn = m.func(q)
        cd = [c for c in ast.walk(fn) if isinstance(c, ast.Call) and (pyfacts.dotted(c.func) or "").endswith("compress_duplicates")]
        R.shape(len(cd) == 1 and len(cd[0].args) >= 2, "C14.R6", SPF, q, "the compress_duplicates call")
        for a in cd[0].args[:2]:
            e = pyfacts.resolved(fn, a, 3, keep=("self",))
            t = src(e).replace(" ", "").replace('"', "'")
            owned = t.endswith(".astype('i')") or t.endswith(".astype(np.int32)") or ".astype('i'," in t or "np.ascontiguousarray(" in t and ("'i'" in t or "int32" in t) \
                or t.startswith("np.array(") and ("'i'" in t or "int32" in t) or t.endswith(".astype('int32')")
            n += 1
            R.check(owned, "C14.R6", SPF, cd[0].lineno, q, "pair array %s is an int32 array made here (%s)" % (src(a), t[:60]),
                    "the label pairs handed to compress_duplicates keep the dtype of the caller's label array: the kernel sorts and compresses "
                    "them in place, which only reaches this array when it is int32")
    R.floor("C14.R6", 8)


def r7(R, m):
    """sinograms.properties.pairrow / pairscans keep every answer of one overlaps_linear object in a dictionary.  The (nedge, 3)
    table it returns therefore has to be an array made in that call: a view of a buffer the object keeps (self.<name>[:nedge]) is
    overwritten by the next call and every stored answer silently becomes the last one."""
    R.rule("C14.R7", "overlaps_linear.__call__ returns a table allocated in that call (np.zeros / np.empty / np.array / .copy()), not a view of "
                     "a buffer kept on the object (its answers are stored by pairrow / pairscans)")
    fn = m.func("overlaps_linear.__call__")
    cfg = pyfacts.PyCFG(fn)
    n = 0
    for r in ast.walk(fn):
        if not (isinstance(r, ast.Return) and isinstance(r.value, ast.Tuple) and len(r.value.elts) == 2):
            continue
        tab = r.value.elts[1]
        if isinstance(tab, ast.Constant) and tab.value is None:
            continue
        node = cfg.node_of(r)
        vals = cfg.reaching(node, src(tab)) if isinstance(tab, ast.Name) else [(tab, [])]
        for v, g in vals:
            n += 1
            if v is None or v == "unknown":
                R.shape(False, "C14.R7", SPF, "overlaps_linear.__call__", "where the returned table %s is made" % src(tab))
            e = v
            root = e
            while isinstance(root, (ast.Subscript, ast.Attribute)) or (isinstance(root, ast.Call) and isinstance(root.func, ast.Attribute)
                                                                      and root.func.attr in ("reshape", "view", "ravel", "transpose")):
                root = root.func.value if isinstance(root, ast.Call) else root.value
            fresh = isinstance(e, ast.Call) and ((pyfacts.dotted(e.func) or "").split(".")[-1] in ("zeros", "empty", "array", "copy", "ones", "full", "stack", "column_stack", "vstack", "transpose")
                                                 and not (isinstance(e.func, ast.Attribute) and src(e.func.value).startswith("self.") and e.func.attr != "copy"))
            kept = isinstance(root, ast.Name) and root.id == "self" and not fresh
            R.shape(fresh or kept, "C14.R7", SPF, "overlaps_linear.__call__", "whether %s = %s is a new array" % (src(tab), src(e)[:50]))
            R.check(fresh, "C14.R7", SPF, r.lineno, "overlaps_linear.__call__", "returned table %s = %s" % (src(tab), src(e)[:50]),
                    "the table handed back is a view of %s, a buffer the object keeps: the next call overwrites it, and the answers that "
                    "properties.pairrow / pairscans stored for earlier frame pairs all turn into (the first rows of) the last pair's table" % src(e)[:40])
    R.shape(n >= 1, "C14.R7", SPF, "overlaps_linear.__call__", "a return (nedge, table)")


def r8(R, m):
    """sparse -> dense: the image handed back holds the frame's pixels and zero everywhere else, also when the caller supplies the
    array (a buffer reused over the frames of a scan).  Either the whole of `out` is written by one call that zeroes it
    (scipy's coo_matrix.todense(out=) overwrites the array), or every scattered store into it is preceded on every path by an
    array of zeros made in the call or a whole-array zero fill."""
    R.rule("C14.R8", "sparse_frame.to_dense: every cell of the returned image that is not a pixel of the frame is zero on every path - a "
                     "caller-supplied 'out' is overwritten as a whole (coo_matrix.todense(out=)) or zero-filled before the pixels are scattered into it")
    q = "sparse_frame.to_dense"
    fn = m.ifunc(q)
    params = [a.arg for a in fn.args.args]
    cfg = pyfacts.PyCFG(fn)
    import networkx as nx
    n = 0
    rets = [r for r in ast.walk(fn) if isinstance(r, ast.Return) and r.value is not None]
    R.shape(len(rets) >= 1, "C14.R8", SPF, q, "the return of the dense image")
    names = set(src(r.value) for r in rets if isinstance(r.value, ast.Name))
    for buf in sorted(names):
        fills, whole, scat = set(), [], []
        for st in ast.walk(fn):
            if pyfacts.zero_fill(st, buf):
                nd = cfg.node_of(st)
                if nd is not None:
                    fills.add(nd.id)
            if isinstance(st, ast.Call) and isinstance(st.func, ast.Attribute) and st.func.attr in ("todense", "toarray"):
                if any(k.arg == "out" and src(k.value) == buf for k in st.keywords):
                    whole.append(st)
            if isinstance(st, (ast.Assign, ast.AugAssign)):
                for t in (st.targets if isinstance(st, ast.Assign) else [st.target]):
                    if isinstance(t, ast.Subscript):
                        root = t.value
                        while isinstance(root, (ast.Subscript, ast.Attribute)):
                            root = root.value
                        if isinstance(root, ast.Name) and root.id == buf and not pyfacts.zero_fill(st, buf):
                            scat.append(st)
        for c in whole:
            n += 1
            R.inst("C14.R8", "%s:%s %s written as a whole by %s" % (SPF, q, buf, src(c)[-40:]))
        for st in scat:
            n += 1
            nd = cfg.node_of(st)
            R.shape(nd is not None, "C14.R8", SPF, q, "the store '%s' in the flow graph" % src(st)[:60])
            g = cfg.g.copy()
            g.remove_nodes_from(fills | set(cfg.node_of(c).id for c in whole if cfg.node_of(c) is not None))
            bad = buf in params and nd.id in g and nx.has_path(g, cfg.entry.id, nd.id)
            R.check(not bad, "C14.R8", SPF, st.lineno, q, src(st)[:80],
                    "the pixels are scattered into '%s' on a path where it is the array the caller supplied and nothing has zeroed it: cells "
                    "that are not pixels of this frame keep what the buffer held (the previous frame of a scan), so sparse -> dense does "
                    "not reproduce the selected pixels" % buf,
                    desc="%s:%s scattered store into %s is preceded by zeros on every path" % (SPF, q, buf))
    R.shape(n >= 1, "C14.R8", SPF, q, "how the dense image is filled (todense(out=) or a scattered store)")


def r9(R, m):
    """from_data_mask makes the frame from three uses of the mask: the pixel count (sizes row / col), the coordinates (C kernel
    mask_to_coo, which takes msk != 0 AFTER f2py has cast the array to int8) and the values (data[...]).  They select the same
    pixels for every mask only when all three use one boolean array: with the raw mask handed to the kernel a label image used
    as mask loses the pixels whose label is a multiple of 256 and an int8 mask with a negative entry gains one; the kernel then
    returns its error code 4 without writing row / col, which the caller does not look at - uninitialised coordinates."""
    R.rule("C14.R9", "from_data_mask: the pixel count, the array handed to mask_to_coo and the index of data[...] are one boolean selection "
                     "(a comparison), not the raw mask (the kernel tests != 0 after the f2py cast to int8; Python tests > 0)")
    q = "from_data_mask"
    fn = m.ifunc(q)
    maskp = fn.args.args[0].arg
    datap = fn.args.args[1].arg
    calls = [c for c in ast.walk(fn) if isinstance(c, ast.Call) and (pyfacts.dotted(c.func) or "").endswith("mask_to_coo") and c.args]
    R.shape(len(calls) == 1, "C14.R9", SPF, q, "the mask_to_coo call")

    def norm(e):
        return src(pyfacts.resolved(fn, e, 3, keep=(maskp, datap))).replace(" ", "").replace("(", "").replace(")", "")
    karg = norm(calls[0].args[0])
    idx = [x for x in ast.walk(fn) if isinstance(x, ast.Subscript) and isinstance(x.ctx, ast.Load) and src(x.value) == datap and not isinstance(x.slice, (ast.Constant, ast.Tuple))
           and "shape" not in src(x)]
    R.shape(len(idx) == 1, "C14.R9", SPF, q, "the values data[<selection>]")
    vsel = norm(idx[0].slice)
    sums = [c for c in ast.walk(fn) if isinstance(c, ast.Call) and isinstance(c.func, ast.Attribute) and c.func.attr == "sum" and maskp in norm(c.func.value)]
    sums += [c for c in ast.walk(fn) if isinstance(c, ast.Call) and (pyfacts.dotted(c.func) or "").split(".")[-1] in ("count_nonzero", "sum") and c.args and maskp in norm(c.args[0])
             and not isinstance(c.func, ast.Attribute) or False]
    R.shape(len(sums) >= 1, "C14.R9", SPF, q, "the pixel count <selection>.sum()")
    csel = norm(sums[0].func.value if isinstance(sums[0].func, ast.Attribute) and sums[0].func.attr == "sum" and not sums[0].args else sums[0].args[0])
    raw = karg == maskp
    R.check(not raw, "C14.R9", SPF, calls[0].lineno, q, "mask_to_coo(%s, ...) with count %s.sum() and values data[%s]" % (karg, csel, vsel),
            "the raw mask goes to the C kernel (which selects != 0 after the cast to int8) while the count and the values use '%s': for a label image "
            "used as mask (a value of 256 becomes 0) or a negative entry the kernel's own count differs, it returns its error code without writing "
            "the coordinates, and from_data_mask hands back uninitialised row / col" % csel)
    R.check(raw or (karg == csel == vsel), "C14.R9", SPF, calls[0].lineno, q, "one selection: kernel %s, count %s, values %s" % (karg, csel, vsel),
            "count, coordinates and values are taken with different selections")
