"""C14  Sparse images round-trip and overlap counting is exact.

Decided (necessary conditions): R1 every self.m(...) call in sparseframe.py fits m's signature (sort()/sort_by()
must be callable at all); R2 reorder applies one permutation to row, col and every pixel array; R3 the two-pointer
merges advance the pointer of the smaller key, compare the keys directly (no sign of a wrapped unsigned
difference), loop while both frames have pixels, and record a hit for equal keys only; mask_to_coo rejects shapes
that do not fit the 16-bit indices; R4 sibling callers of (sparse_overlaps -> compress_duplicates) agree on the
guard between the two kernels and size the histogram for the largest label; R5 index dtypes agree between the
Python constructors and the .pyf.
Not decided: exact round trip of values, exact counts.
"""
import ast

from engine import cfront, crules, iface, pyfacts
from engine.cfront import estr, ewalk, swalk
from engine.pyfacts import src

PID = "C14"
SPF = "ImageD11/sparseframe.py"
SP = "src/sparse_image.c"


def run(R):
    R.assume("sparse frames handed to the overlap kernels are sorted row-major without duplicates (as the repo's converters produce them)")
    m = pyfacts.module(R, SPF)
    if R.want("C14.R1"):
        r1(R, m)
    if R.want("C14.R2"):
        r2(R, m)
    if R.want("C14.R3"):
        r3(R)
    if R.want("C14.R4"):
        r4(R, m)
    if R.want("C14.R5"):
        r5(R, m)


def r1(R, m):
    R.rule("C14.R1", "every self.<method>(...) call inside a class of sparseframe.py matches the method's signature (positional count, "
                     "keyword names)")
    n = 0
    for cname, cls in m.classes.items():
        methods = {f.name: f for f in cls.body if isinstance(f, ast.FunctionDef)}
        for mname, fn in methods.items():
            if not fn.args.args:
                continue
            selfname = fn.args.args[0].arg
            for c in ast.walk(fn):
                if not (isinstance(c, ast.Call) and isinstance(c.func, ast.Attribute) and isinstance(c.func.value, ast.Name) and c.func.value.id == selfname):
                    continue
                callee = methods.get(c.func.attr)
                if callee is None:
                    continue
                if any(isinstance(d, ast.Name) and d.id in ("staticmethod", "classmethod") for d in callee.decorator_list):
                    continue
                n += 1
                a = callee.args
                params = [x.arg for x in a.args][1:]
                nreq = len(params) - len(a.defaults)
                npos = len(c.args)
                kws = [k.arg for k in c.keywords if k.arg]
                star = any(isinstance(x, ast.Starred) for x in c.args) or any(k.arg is None for k in c.keywords)
                ok = star or ((npos <= len(params) or a.vararg is not None) and all((k in params or a.kwarg is not None or k in [x.arg for x in a.kwonlyargs]) for k in kws)
                              and npos + len([k for k in kws if k in params]) >= nreq)
                passes_self = any(isinstance(x, ast.Name) and x.id == selfname for x in c.args)
                R.check(ok and not passes_self, "C14.R1", SPF, c.lineno, "%s.%s" % (cname, mname), "self.%s(%s) against %s(%s)" % (c.func.attr, ", ".join(src(x) for x in c.args), c.func.attr, ", ".join(params)),
                        "the bound method is called with %d positional argument(s)%s but takes %d: TypeError on every call, so %s() can never establish its order" % (
                            npos, " (self passed again)" if passes_self else "", len(params), mname))
    if n < 3:
        R.fail("C14.R1 examined %d self-calls, expected at least 3" % n)


def r2(R, m):
    R.rule("C14.R2", "sparse_frame.reorder applies the same 'order' to row, col and every array in pixels, in place")
    fn = m.func("sparse_frame.reorder")
    order = fn.args.args[1].arg
    st = [s for s in ast.walk(fn) if isinstance(s, ast.Assign) and isinstance(s.targets[0], ast.Subscript)]
    tg = {}
    for s in st:
        t = s.targets[0]
        full = isinstance(t.slice, ast.Slice) and t.slice.lower is None and t.slice.upper is None
        tg[src(t.value)] = (full, src(s.value))
    for name in ("self.row", "self.col"):
        R.check(name in tg and tg[name] == (True, "%s[%s]" % (name, order)), "C14.R2", SPF, fn.lineno, "sparse_frame.reorder", "%s[:] = %s[%s]" % (name, name, order),
                "%s is not permuted with the common order: pixel values are detached from their coordinates" % name)
    loops = [l for l in ast.walk(fn) if isinstance(l, ast.For) and "self.pixels" in src(l.iter)]
    R.check(len(loops) == 1 and not any(isinstance(x, (ast.Break, ast.Continue)) for x in ast.walk(loops[0])), "C14.R2", SPF, fn.lineno, "sparse_frame.reorder", "loop over all pixel arrays",
            "some pixel arrays are not reordered")
    if loops:
        px = [x.id for x in ast.walk(loops[0].target) if isinstance(x, ast.Name)][-1]
        R.check(px in tg and tg[px] == (True, "%s[%s]" % (px, order)), "C14.R2", SPF, loops[0].lineno, "sparse_frame.reorder", "%s[:] = %s[%s]" % (px, px, order),
                "pixel arrays are permuted with a different selector than the coordinates")
    for meth, fun in (("sort", "lexsort"), ("sort_by", "argsort")):
        f2 = m.func("sparse_frame.%s" % meth)
        u = ast.unparse(f2)
        R.check("np.%s(" % fun in u, "C14.R2", SPF, f2.lineno, "sparse_frame.%s" % meth, "order from np.%s" % fun, "order is not a permutation from %s" % fun)
    f2 = m.func("sparse_frame.sort")
    R.check("np.lexsort((self.col, self.row))" in ast.unparse(f2), "C14.R2", SPF, f2.lineno, "sparse_frame.sort", "lexsort((col, row)): row-major order", "sort keys are not (row major, col minor)")


def r3(R):
    R.rule("C14.R3", "merge kernels: loop while both frames have pixels; the frame with the smaller key advances; equal keys record one hit and "
                     "advance both; keys are compared directly (never through the sign of an unsigned difference); mask_to_coo rejects "
                     "shapes beyond 65535; compress_duplicates writes its count for the last run")
    tus = cfront.load(R.root, files=["sparse_image.c"])
    # -- no sign-of-wrapped-difference anywhere in the file
    nsub = 0
    for f in cfront.all_funcs(tus):
        for st, x in cfront.all_exprs(f.body):
            if x.k == "cast" and x.op in ("IntegralCast", "CStyleCastExpr", None) or (x.k == "cast" and x.val in ("explicit", "implicit")):
                inner = x.a[0]
                tgt = (x.ty or "")
                if inner.k == "bin" and inner.op == "-" and "unsigned" in (inner.ty or "") and "unsigned" not in tgt and tgt.strip() in ("int", "long", "short", "long long"):
                    nsub += 1
                    R.violation("C14.R3", SP, x.line, f.name, estr(x), "the difference of two unsigned keys is reinterpreted as signed: for keys more than 2^31 apart "
                                "(rows >= 32768 apart in a packed row<<16|col key) the sign is wrong and the merge walks off the wrong frame")
    R.inst("C14.R3", "no signed reinterpretation of an unsigned difference in sparse_image.c (%d found)" % nsub, ok=nsub == 0)
    # -- sparse_overlaps
    f = cfront.find_func(tus, "sparse_overlaps", SP)
    pn = [p.name for p in f.params]
    i1, j1, k1, nnz1, i2, j2, k2, nnz2 = pn
    wl = [s for s in swalk(f.body) if s.k == "while"]
    R.shape(len(wl) == 1, "C14.R3", SP, "sparse_overlaps", "the merge loop")
    conds = set(crules.rel_norm(e, p) for e, p in _conj(wl[0].cond))
    R.check(conds == {("<", "p1", nnz1), ("<", "p2", nnz2)}, "C14.R3", SP, wl[0].line, "sparse_overlaps", "while (p1 < nnz1) && (p2 < nnz2)",
            "the merge can read past the end of a frame or stop early: %s" % sorted(conds))
    cfg = f.cfg
    incs = {}
    for n in cfg.nodes:
        if n.e is not None and n.e.k == "incdec" and n.e.op == "++" and n.e.a[0].k == "var" and n.id in cfg.reachable():
            incs.setdefault(n.e.a[0].name, []).append(crules.guard_set(cfg, n.id))
    A, B = "%s[p1]" % i1, "%s[p2]" % i2
    C, D = "%s[p1]" % j1, "%s[p2]" % j2

    def rowgt(g):   # i1 > i2
        return ("<", _c(B), _c(A)) in _cs(g)

    def rowlt(g):
        return ("<", _c(A), _c(B)) in _cs(g)

    def colgt(g):
        return ("<", _c(D), _c(C)) in _cs(g)

    def collt(g):
        return ("<", _c(C), _c(D)) in _cs(g)
    p1g = [g for g in incs.get("p1", []) if any(x[1] in ("p1",) or True for x in g)]
    p2g = incs.get("p2", [])
    # inside the while loop only (guards contain the loop condition)
    p1g = [g for g in incs.get("p1", []) if ("<", "p1", nnz1) in g and ("<", "p2", nnz2) in g]
    p2g = [g for g in incs.get("p2", []) if ("<", "p1", nnz1) in g and ("<", "p2", nnz2) in g]
    ok1 = sum(1 for g in p1g if rowlt(g)) == 1 and sum(1 for g in p1g if collt(g) and not rowlt(g) and not rowgt(g)) == 1
    ok2 = sum(1 for g in p2g if rowgt(g)) == 1 and sum(1 for g in p2g if colgt(g) and not rowlt(g) and not rowgt(g)) == 1
    both1 = [g for g in p1g if not rowlt(g) and not rowgt(g) and not collt(g) and not colgt(g)]
    both2 = [g for g in p2g if not rowlt(g) and not rowgt(g) and not collt(g) and not colgt(g)]
    R.check(ok1 and ok2, "C14.R3", SP, wl[0].line, "sparse_overlaps", "smaller (row, col) key advances: p1++ under i1<i2 or (i1==i2, j1<j2); p2++ under the converse",
            "a frame pointer advances although its pixel is not the smaller one: shared pixels are skipped")
    R.check(len(both1) == 1 and len(both2) == 1, "C14.R3", SP, wl[0].line, "sparse_overlaps", "equal keys advance both pointers", "equal pixels do not advance both frames (endless loop or double count)")
    hits = [(n, x) for n, x, t in crules.stores(f, lambda t: t.k == "idx" and estr(t.a[0]) in (k1, k2) and estr(t.a[1]) == "nhit")]
    R.check(len(hits) == 2 and all(not (rowlt(crules.guard_set(cfg, n.id)) or rowgt(crules.guard_set(cfg, n.id)) or collt(crules.guard_set(cfg, n.id)) or colgt(crules.guard_set(cfg, n.id))) for n, x in hits)
            and sorted(estr(x.a[1]) for n, x in hits) == ["p1", "p2"], "C14.R3", SP, wl[0].line, "sparse_overlaps", "k1[nhit] = p1; k2[nhit] = p2 only for equal keys",
            "a hit is recorded for unequal pixels or with the wrong indices")
    # -- coverlaps
    g = cfront.find_func(tus, "coverlaps", SP)
    wl = [s for s in swalk(g.body) if s.k == "while"]
    R.shape(len(wl) == 1, "C14.R3", SP, "coverlaps", "the merge loop")
    cfg = g.cfg
    keys = {}
    for st, x in cfront.all_exprs(wl[0].body):
        if x.k == "asg" and x.op == "=" and x.a[0].k == "var" and any(y.k == "bin" and y.op == "<<" for y in ewalk(x.a[1])):
            keys[x.a[0].name] = x.a[1]
    R.check(len(keys) == 2, "C14.R3", SP, wl[0].line, "coverlaps", "two packed keys (row << 16) + col", "packed keys not found")
    for kname, e in keys.items():
        sh = [y for y in ewalk(e) if y.k == "bin" and y.op == "<<"]
        wide = sh and sh[0].a[0].k == "cast" and "unsigned int" in (sh[0].a[0].ty or "") and sh[0].a[1].k == "int" and sh[0].a[1].val == 16
        R.check(bool(wide), "C14.R3", SP, e.line, "coverlaps", "%s = ((uint32_t)row << 16) + col" % kname, "the row is shifted in a 16-bit/int type: keys of rows >= 32768 overflow")
    if len(keys) == 2:
        ka, kb = sorted(keys)     # p1, p2
        incs = {}
        for n in cfg.nodes:
            if n.e is not None and n.e.k == "incdec" and n.e.op == "++" and n.e.a[0].k == "var" and n.id in cfg.reachable():
                incs.setdefault(n.e.a[0].name, []).append(crules.guard_set(cfg, n.id))
        nn1, nn2 = g.params[3].name, g.params[7].name
        i1g = [x for x in incs.get("i1", []) if ("<", "i2", nn2) in x]
        i2g = [x for x in incs.get("i2", []) if ("<", "i1", nn1) in x]
        def orders(gs):
            """which of  ka < kb, ka == kb, ka > kb  the guard set leaves possible (if / else-if chains give p1 != p2 and p1 <= p2)"""
            poss = {"<", "==", ">"}
            allow = {("<", ka, kb): {"<"}, ("<", kb, ka): {">"}, ("<=", ka, kb): {"<", "=="}, ("<=", kb, ka): {">", "=="},
                     ("==", ka, kb): {"=="}, ("==", kb, ka): {"=="}, ("!=", ka, kb): {"<", ">"}, ("!=", kb, ka): {"<", ">"}}
            for g_ in gs:
                if g_ in allow:
                    poss &= allow[g_]
            return poss
        o1 = [orders(x) for x in i1g]
        o2 = [orders(x) for x in i2g]
        ok = bool(o1) and bool(o2) and set().union(*o1) == {"<", "=="} and set().union(*o2) == {">", "=="} \
            and all(len(o) == 1 for o in o1 + o2) and sorted(map(tuple, o1)) == [("<",), ("==",)] and sorted(map(tuple, o2)) == [("==",), (">",)]
        R.check(ok, "C14.R3", SP, wl[0].line, "coverlaps", "i1++ iff key1 <= key2, i2++ iff key2 <= key1 (direct comparisons of the keys)",
                "the merge does not advance by direct comparison of the two packed keys")
    # -- mask_to_coo range checks
    h = cfront.find_func(tus, "mask_to_coo", SP)
    conds = [crules.rel_norm(e, True) for s in swalk(h.body) if s.k == "if" for e, p in _disj(s.cond)]
    ns, nf = h.params[1].name, h.params[2].name
    for v in (ns, nf):
        R.check(("<", "65535", v) in conds and ("<", v, "1") in conds, "C14.R3", SP, h.line, "mask_to_coo", "%s rejected unless 1 <= %s <= 65535" % (v, v),
                "an image dimension beyond the 16-bit coordinate range is accepted: coordinates wrap")
    # -- compress_duplicates writes the last run and returns c+1
    cd = cfront.find_func(tus, "compress_duplicates", SP)
    last = [s for s in (cd.body.body if cd.body.k == "block" else []) if s.k == "expr"]
    tail = [estr(s.e) for s in last[-4:]]
    R.check(tail == ["i[c] = ik", "j[c] = jk", "oi[c] = t", "c++"], "C14.R3", SP, cd.line, "compress_duplicates", "last run written: i[c]=ik; j[c]=jk; oi[c]=t; c++",
            "the last (label1,label2) pair or its count is not written: %s" % tail)


def _c(t):
    return t.replace("(int)", "")


def _cs(g):
    return set((op, _c(a), _c(b)) for op, a, b in g)


def _conj(e):
    if e.k == "bin" and e.op == "&&":
        return _conj(e.a[0]) + _conj(e.a[1])
    return [(e, True)]


def _disj(e):
    if e.k == "bin" and e.op == "||":
        return _disj(e.a[0]) + _disj(e.a[1])
    return [(e, True)]


def r4(R, m):
    R.rule("C14.R4", "overlaps() and overlaps_linear.__call__ pass the same roles to sparse_overlaps then compress_duplicates and agree on the "
                     "guard between them (no overlap => compress_duplicates is not called); histogram sized for the largest label; "
                     "overlaps_matrix checks labels against npk before coverlaps")
    sibs = {"overlaps": m.func("overlaps"), "overlaps_linear.__call__": m.func("overlaps_linear.__call__")}
    info = {}
    for name, fn in sibs.items():
        cfg = pyfacts.PyCFG(fn)
        so = [c for c in ast.walk(fn) if isinstance(c, ast.Call) and (pyfacts.dotted(c.func) or "").endswith("sparse_overlaps")]
        cd = [c for c in ast.walk(fn) if isinstance(c, ast.Call) and (pyfacts.dotted(c.func) or "").endswith("compress_duplicates")]
        R.shape(len(so) == 1 and len(cd) == 1, "C14.R4", SPF, name, "one sparse_overlaps and one compress_duplicates call")
        asg = pyfacts.containing_stmt(so[0])
        npx = src(asg.targets[0]) if isinstance(asg, ast.Assign) else None
        n_cd = cfg.node_of(pyfacts.containing_stmt(cd[0]))
        guards = [(src(t), p) for t, p in cfg.guards(n_cd)]
        guarded = any(npx and npx in t and "0" in t for t, p in guards)
        # 'if npx == 0: return' before the call also guards it (assume node False dominates)
        info[name] = dict(npx=npx, guarded=guarded, so=so[0], cd=cd[0], guards=guards)
        roles = [src(a) for a in so[0].args]
        R.check(len(roles) == 6, "C14.R4", SPF, so[0].lineno, name, "sparse_overlaps(row1, col1, k1, row2, col2, k2)", "argument count changed")
        R.check("row" in roles[0] and "col" in roles[1] and "row" in roles[3] and "col" in roles[4], "C14.R4", SPF, so[0].lineno, name, "rows/cols in order: %s" % roles,
                "row and column arrays are passed in the wrong slots")
    g = [v["guarded"] for v in info.values()]
    for name, v in info.items():
        R.check(v["guarded"] or not any(g), "C14.R4", SPF, v["cd"].lineno, name, "compress_duplicates reached only when %s != 0 (%s)" % (v["npx"], v["guards"]),
                "the sibling caller returns early when the two frames share no pixel, this one calls compress_duplicates with empty arrays: f2py "
                "rejects zero-length arrays (ValueError) instead of reporting an empty overlap list")
    # histogram sizing
    ov = sibs["overlaps"]
    tmp = [a for a in ast.walk(ov) if isinstance(a, ast.Assign) and src(a.targets[0]) == "tmp"]
    R.check(len(tmp) == 1 and "max(n1, n2) + 1" in src(tmp[0].value), "C14.R4", SPF, ov.lineno, "overlaps", "tmp sized max(n1, n2) + 1", "histogram is too short for the largest label")
    rl = m.func("overlaps_linear.realloc")
    R.check("self.tmp = np.empty(nnzmax + 1, 'i')" in ast.unparse(rl), "C14.R4", SPF, rl.lineno, "overlaps_linear.realloc", "tmp sized nnzmax + 1", "histogram shorter than nnzmax + 1")
    call = sibs["overlaps_linear.__call__"]
    u = ast.unparse(call)
    def max_leaves(n):
        """max(max(a, b), max(c, d)) == max(a, b, c, d): the set of leaf expressions of nested max() calls"""
        if isinstance(n, ast.Call) and src(n.func) in ("max", "np.max", "numpy.max", "np.maximum", "numpy.maximum") and not n.keywords and n.args:
            args = n.args[0].elts if len(n.args) == 1 and isinstance(n.args[0], (ast.Tuple, ast.List)) else n.args
            out = set()
            for a in args:
                out |= max_leaves(a)
            return out
        return {pyfacts.resolved_src(call, n)}
    sized = [(a, max_leaves(a.value)) for a in ast.walk(call) if isinstance(a, ast.Assign) and len(a.targets) == 1 and isinstance(a.targets[0], ast.Name)
             and isinstance(a.value, ast.Call) and len(max_leaves(a.value)) > 1]
    grow = [i for i in ast.walk(call) if isinstance(i, ast.If) and "self.nnzmax" in src(i.test) and any("realloc" in src(b) for b in i.body)]
    R.shape(bool(sized) and bool(grow), "C14.R4", SPF, "overlaps_linear.__call__", "size = max(...) followed by 'if size > self.nnzmax: realloc'")
    need = {"len(row1)", "len(row2)", "n1", "n2"}
    okk = False
    for a, leaves in sized:
        t = a.targets[0].id
        for i in grow:
            tt = src(i.test).replace(" ", "")
            if tt in ("%s>self.nnzmax" % t, "self.nnzmax<%s" % t) and need <= leaves:
                okk = True
    R.check(okk, "C14.R4", SPF, call.lineno, "overlaps_linear.__call__", "nnzmax >= max(len(row1), len(row2), n1, n2) under checkmem (found %s)" % [sorted(l) for a, l in sized],
            "the work arrays are not grown for the largest label / frame")
    om = m.func("overlaps_matrix.__call__")
    asserts = [a for a in ast.walk(om) if isinstance(a, ast.Assert)]
    cov = [c for c in ast.walk(om) if isinstance(c, ast.Call) and (pyfacts.dotted(c.func) or "").endswith("coverlaps")]
    R.check(len(cov) == 1 and sum(1 for a in asserts if ".max()" in src(a.test) and a.lineno < cov[0].lineno) >= 2, "C14.R4", SPF, om.lineno, "overlaps_matrix.__call__",
            "labels1.max()-1 < n1 and labels2.max()-1 < n2 asserted before coverlaps", "labels are not checked against the matrix size before the kernel indexes mat[(l1-1)*n2 + l2-1]")
    R.check("mat = self.matmem[:n1 * n2]" in ast.unparse(om), "C14.R4", SPF, om.lineno, "overlaps_matrix.__call__", "mat has n1*n2 cells", "matrix memory not sized n1*n2")


def r5(R, m):
    R.rule("C14.R5", "row/col are 16-bit unsigned in the .pyf of the sparse kernels and in the Python constructors (sparse_frame default itype, "
                     "from_data_mask, from_data_cut)")
    fns, order = iface.crack(R.path("src/_cImageD11.pyf"))
    for rname, args in (("sparse_overlaps", ("i1", "j1", "i2", "j2")), ("coverlaps", ("row1", "col1", "row2", "col2")), ("mask_to_coo", ("i", "j")),
                        ("sparse_connectedpixels", ("i", "j")), ("sparse_localmaxlabel", ("i", "j")), ("tosparse_u16", ("row", "col")), ("tosparse_f32", ("row", "col"))):
        if rname not in fns:
            R.fail("routine %s missing from the .pyf" % rname)
        for a in args:
            v = fns[rname]["vars"].get(a)
            ks = (v or {}).get("kindselector", {})
            ok = v is not None and v.get("typespec") == "integer" and (ks.get("kind") or ks.get("*")) == "-2"
            R.check(ok, "C14.R5", "src/_cImageD11.pyf", 1, rname, "%s(%s): integer(kind=-2) = uint16" % (rname, a), "index argument is not declared 16-bit unsigned")
    init = m.func("sparse_frame.__init__")
    d = dict(zip([a.arg for a in init.args.args][-len(init.args.defaults):], init.args.defaults))
    R.check("itype" in d and src(d["itype"]) == "np.uint16", "C14.R5", SPF, init.lineno, "sparse_frame.__init__", "default itype np.uint16", "default index type differs from what the kernels take")
    for q in ("from_data_mask", "from_data_cut"):
        fn = m.func(q)
        u = ast.unparse(fn)
        R.check("np.uint16" in u and u.count("np.empty") >= 2, "C14.R5", SPF, fn.lineno, q, "row/col buffers allocated as np.uint16", "coordinate buffers are not uint16")
    fm = m.func("from_data_mask")
    R.check("data.shape[0] < pow(2, 16) - 1" in ast.unparse(fm) and "data.shape[1] < pow(2, 16) - 1" in ast.unparse(fm), "C14.R5", SPF, fm.lineno, "from_data_mask", "shape asserted < 65535",
            "images beyond the 16-bit coordinate range are not rejected")
