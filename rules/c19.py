"""C19  Scanning geometry is self-consistent; reconstructions land where it predicts.

Decided (proof, all inputs, as real-valued functions where divisors are non-zero): P1 the
lab/sample/step/recon conversions are mutual inverses and the in-beam dty makes lab y vanish.
Partial: R2 point_by_point clones of the geometry; R3 worker independence structure of iradon;
R4 consumers pass shift/pad into the like-named run_iradon parameters.
Not decided: the 1.5 pixel landing, linearity of the filtered back-projection, iradon's own half-pixel
conventions.
"""
import ast

from engine import pyfacts, vn, vn_py
from engine.pyfacts import src
from engine.vn_py import sym

PID = "C19"
GEO = "ImageD11/sinograms/geometry.py"


def interp(R):
    m = pyfacts.module(R, GEO)
    return vn_py.Interp({"geometry": m}), m


def run(R):
    R.level = "proof"
    R.trusted = ["CPython ast", "exact rational polynomial arithmetic (engine/poly.py, engine/vn.py)",
                 "numpy object-array broadcasting", "identity sin^2+cos^2=1 and field axioms only"]
    R.assume("real arithmetic: equality is of real-valued functions where ystep != 0; floating-point rounding is not modelled")
    if R.want("C19.R6"):
        r6(R)
    if R.want("C19.R7"):
        r7(R)
    if R.want("C19.R8"):
        r8(R)
    if R.want("C19.P1"):
        p1(R)
    if R.want("C19.R2"):
        r2(R)
    if R.want("C19.R3"):
        r3(R)
    if R.want("C19.R4"):
        r4(R)
    if R.want("C19.R5"):
        r5(R)


def r6(R):
    """P1 treats every conversion as a function of its arguments.  That is only the function the user calls if no conversion reads
    module-level state that the module itself changes between calls (a memo of the last sin/cos, a running offset ...)."""
    R.rule("C19.R6", "geometry.py: no conversion function (or a helper it calls) reads module-level state that a function of the module "
                     "modifies - the value returned depends on the arguments only, not on earlier calls")
    m = pyfacts.module(R, GEO)
    n = 0
    for q, fn in sorted(m.funcs.items()):
        if "." in q or getattr(fn, "_parent", None) is not m.tree:
            continue
        n += 1
        reads = pyfacts.state_reads(m, fn)
        R.inst("C19.R6", "%s:%s reads no mutable module state" % (GEO, q), ok=not reads)
        for name, node, owner in reads[:1]:
            muts = pyfacts.module_state(m)[name]
            # positive evidence: the state is a memo validated by object identity (x is / is not <state>), or it is read with no
            # validity test at all; a memo validated by comparing values may be a correct one: not decided
            tests = [c for c in ast.walk(owner) if isinstance(c, ast.Compare) and any(isinstance(x, ast.Name) and x.id == name for x in ast.walk(c))]
            ident = [c for c in tests if any(isinstance(o, (ast.Is, ast.IsNot)) for o in c.ops)
                     and not any(isinstance(x, ast.Constant) and x.value is None for x in [c.left] + c.comparators)]
            ident += [c for c in tests if any(isinstance(x, ast.Call) and src(x.func) == "id" for x in ast.walk(c))]
            if tests and not ident:
                R.shape(False, "C19.R6", GEO, q, "whether the module-level memo %s (tested by '%s') is valid for every argument" % (name, src(tests[0])[:60]))
            R.violation("C19.R6", GEO, node.lineno, q, "%s read in %s; modified at line %s (%s)%s" % (
                name, owner.name, muts[0].lineno, src(pyfacts.containing_stmt(muts[0]))[:70], ("; validated by identity: " + src(ident[0])) if ident else ""),
                        "the result of %s depends on module-level state that the module changes between calls (here: %s, %s), so it is not a "
                        "function of its arguments: equal arguments can give different values after an earlier call, and an array changed in place "
                        "after it was seen is still the same object" % (q, name, "reused when an argument is the same object as last time" if ident else "read without any validity test"))
    R.floor("C19.R6", 15)


def r7(R):
    """P1 reads 'y = f(x)' as a new value.  A conversion that updates an argument in place (x += c, x[...] = ..., np.add(x, c, out=x))
    returns the right numbers the first time and changes the caller's array: the caller's positions are then no longer what they
    were, so converting back (or converting the same map columns again) no longer gives the inverse."""
    R.rule("C19.R7", "geometry.py: no conversion function modifies an argument in place (augmented assignment to a parameter, store "
                     "through a parameter, out=<parameter>): for array arguments that changes the caller's data")
    m = pyfacts.module(R, GEO)
    n = 0
    for q, fn in sorted(m.funcs.items()):
        if "." in q or getattr(fn, "_parent", None) is not m.tree:
            continue
        params = set(a.arg for a in fn.args.args + fn.args.kwonlyargs + fn.args.posonlyargs)
        rebound = set()
        bad = []
        for st in ast.walk(fn):
            if isinstance(st, ast.Assign):
                for t in st.targets:
                    for x in ast.walk(t):
                        if isinstance(x, ast.Name) and isinstance(x.ctx, ast.Store) and x.id in params and not isinstance(getattr(x, "_parent", None), ast.Subscript):
                            rebound.add((x.id, st.lineno))
        for st in ast.walk(fn):
            if isinstance(st, ast.AugAssign):
                t = st.target
                base = t
                while isinstance(base, (ast.Subscript, ast.Attribute)):
                    base = base.value
                if isinstance(base, ast.Name) and base.id in params and not any(nm == base.id and ln < st.lineno for nm, ln in rebound):
                    bad.append((st, "%s: for an ndarray argument this updates the caller's array in place" % src(st)))
            if isinstance(st, ast.Assign):
                for t in st.targets:
                    if isinstance(t, ast.Subscript):
                        base = t
                        while isinstance(base, (ast.Subscript, ast.Attribute)):
                            base = base.value
                        if isinstance(base, ast.Name) and base.id in params and not any(nm == base.id and ln < st.lineno for nm, ln in rebound) \
                                and base.id not in ("out", "res", "result", "output"):
                            bad.append((st, "%s: a store through the parameter %s" % (src(st)[:60], base.id)))
            if isinstance(st, ast.Call):
                for k in st.keywords:
                    if k.arg == "out" and isinstance(k.value, ast.Name) and k.value.id in params and k.value.id not in ("out", "res", "result", "output"):
                        bad.append((st, "%s: the result is written into the argument %s" % (src(st)[:60], k.value.id)))
        n += 1
        R.inst("C19.R7", "%s:%s leaves its arguments alone" % (GEO, q), ok=not bad)
        for st, why in bad[:2]:
            R.violation("C19.R7", GEO, st.lineno, q, src(st)[:80], why + " - the positions the caller holds are silently replaced by the converted "
                        "ones, so the inverse conversion of the result no longer returns them and a second conversion of the same columns is shifted again")
    R.floor("C19.R7", 15)


def r8(R):
    """'independent of worker count and of restricting it to a region-of-interest mask', linearity, and equality of two reconstructions
    of the same sinogram all need the filter of a call to be a function of that call's arguments.  A value returned by a memoised
    function (functools.lru_cache / cache) is the same object for every caller; changing it in place (the window functions of
    _get_fourier_filter do 'fourier_filter *= ...') changes what the next call gets."""
    R.rule("C19.R8", "roi_iradon.py / geometry.py: no result of a function memoised with functools.lru_cache / cache is modified in place by "
                     "its caller (x *= .., x[..] = .., x.sort())")
    n = 0
    for rel in ("ImageD11/sinograms/roi_iradon.py", GEO):
        m = pyfacts.module(R, rel)
        hits = pyfacts.memo_results_mutated(m)
        n += 1
        R.inst("C19.R8", "%s: memoised results are not modified in place" % rel, ok=not hits)
        for fname, call, mut, q in hits:
            R.violation("C19.R8", rel, mut.lineno, q, "%s; ...; %s" % (src(call)[:50], src(mut)[:50]),
                        "%s is memoised, so every call with the same arguments returns the SAME array; '%s' changes that array in place: the k-th "
                        "reconstruction is filtered with the window applied k times, a repeated call, another worker count, an ROI run or a "
                        "linear combination no longer gives the same image" % (fname, src(mut)[:40]))
    R.floor("C19.R8", 2)


PAIRS = [
    # (forward, inverse, kind) ; kinds give the argument layout
    ("sample_to_lab", "lab_to_sample", "lab"),
    ("sample_to_lab_sincos", "lab_to_sample_sincos", "sincos"),
    ("sample_to_step", "step_to_sample", "step"),
    ("step_to_recon", "recon_to_step", "recon"),
    ("sample_to_recon", "recon_to_sample", "samrec"),
    ("lab_to_step", "step_to_lab", "labstep"),
    ("lab_to_recon", "recon_to_lab", "labrec"),
]


def _extra(kind, fwd):
    y0, dty, om, ystep = sym("y0"), sym("dty"), sym("omega"), sym("ystep")
    s, c = sym("sinomega"), sym("cosomega")
    shape = (sym("shape0"), sym("shape1"))
    if kind == "lab":
        return (y0, dty, om)
    if kind == "sincos":
        return (y0, dty, s, c)
    if kind == "step":
        return (ystep,)
    if kind == "recon":
        return (shape,)
    if kind == "samrec":
        return (shape, ystep)
    if kind == "labstep":
        return (y0, dty, om, ystep)
    if kind == "labrec":
        return (y0, dty, om, shape, ystep)
    raise ValueError(kind)


def p1(R):
    R.rule("C19.P1", "g(f(p)) == p and f(g(q)) == q for each conversion pair, and ly(dty_in_beam) == 0, as identities in "
                     "the polynomial ring with sin^2+cos^2=1 (for the *_sincos forms under the hypothesis s^2+c^2=1)")
    I, m = interp(R)
    a, b = sym("a"), sym("b")
    n = 0
    for f, g, kind in PAIRS:
        for first, second in ((f, g), (g, f)):
            ex = _extra(kind, first)
            mid = I.call("geometry", first, a, b, *ex)
            back = I.call("geometry", second, mid[0], mid[1], *ex)
            ok = True
            why = ""
            for got, want, nm in ((back[0], a, "first"), (back[1], b, "second")):
                d = vn_py.R(got) - want
                if kind == "sincos":
                    d = _with_unit_circle(d, "sinomega", "cosomega")
                if not vn.is_zero(d):
                    ok = False
                    why = "%s component: %s(%s(a,b)) - identity = %s" % (nm, second, first, vn_py._short(d))
            n += 1
            fn = m.func(second)
            R.check(ok, "C19.P1", GEO, fn.lineno, second, "%s o %s == identity" % (second, first),
                    "the two conversions are not mutual inverses: " + why)
    # in-beam identities
    sx, sy, y0, om = sym("sx"), sym("sy"), sym("y0"), sym("omega")
    d = I.call("geometry", "dty_values_grain_in_beam", sx, sy, y0, om)
    lxy = I.call("geometry", "sample_to_lab", sx, sy, y0, d, om)
    R.check(vn.is_zero(vn_py.R(lxy[1])), "C19.P1", GEO, m.func("dty_values_grain_in_beam").lineno, "dty_values_grain_in_beam",
            "ly(sample_to_lab(sx, sy, y0, dty_values_grain_in_beam(sx,sy,y0,omega), omega)) == 0",
            "the dty said to bring the point into the beam does not make its lab y zero: ly = %s" % vn_py._short(vn_py.R(lxy[1])))
    s, c = sym("sinomega"), sym("cosomega")
    d2 = I.call("geometry", "dty_values_grain_in_beam_sincos", sx, sy, y0, s, c)
    lxy2 = I.call("geometry", "sample_to_lab_sincos", sx, sy, y0, d2, s, c)
    R.check(vn.is_zero(vn_py.R(lxy2[1])), "C19.P1", GEO, m.func("dty_values_grain_in_beam_sincos").lineno,
            "dty_values_grain_in_beam_sincos", "ly(sample_to_lab_sincos(.., dty_in_beam_sincos, s, c)) == 0",
            "ly = %s" % vn_py._short(vn_py.R(lxy2[1])))
    # aliases
    d3 = I.call("geometry", "x_y_y0_omega_to_dty", om, sx, sy, y0)
    R.check(vn.equal(vn_py.R(d3), vn_py.R(d)), "C19.P1", GEO, m.func("x_y_y0_omega_to_dty").lineno, "x_y_y0_omega_to_dty",
            "x_y_y0_omega_to_dty(omega,x,y,y0) == dty_values_grain_in_beam(x,y,y0,omega)", "argument roles are permuted")
    # the degree and sincos versions agree
    lab1 = I.call("geometry", "sample_to_lab", a, b, y0, sym("dty"), om)
    lab2 = I.call("geometry", "sample_to_lab_sincos", a, b, y0, sym("dty"),
                  vn.app("sin", vn.radians(om)), vn.app("cos", vn.radians(om)))
    ok, why = vn_py.same(lab1, lab2)
    R.check(ok, "C19.P1", GEO, m.func("sample_to_lab").lineno, "sample_to_lab", "sample_to_lab == sample_to_lab_sincos(sin(omega), cos(omega))", why)
    # dtyi <-> dty
    if m.has("dtyi_to_dty") and m.has("dty_to_dtyi"):
        i, ystep, ymin = sym("dtyi"), sym("ystep"), sym("ymin")
        dd = I.call("geometry", "dtyi_to_dty", i, ystep, ymin)
        back = I.call("geometry", "dty_to_dtyi", dd, ystep, ymin)
        # round(x) of an integer-valued symbol: rnd(dtyi) atom expected
        want = vn.app("rnd", i)
        R.check(vn.equal(vn_py.R(back), want), "C19.P1", GEO, m.func("dty_to_dtyi").lineno, "dty_to_dtyi",
                "dty_to_dtyi(dtyi_to_dty(i)) == round(i)", "discretisation is not the inverse of dtyi_to_dty: %s" % vn_py._short(vn_py.R(back)))
    R.floor("C19.P1", 18, "proof obligations")


def _with_unit_circle(d, sname, cname):
    """apply c^2 -> 1 - s^2 for plain atoms (hypothesis s^2 + c^2 = 1 of the *_sincos functions)"""
    from engine.poly import Poly, Rat
    d = vn_py.R(d)

    def red(p):
        changed = True
        while changed:
            changed = False
            out = Poly()
            for k, v in p.t.items():
                pw = dict(k).get(cname, 0)
                if pw >= 2:
                    changed = True
                    rest = tuple((a, q) for a, q in k if a != cname)
                    base = Poly({rest: v}) * (Poly.atom(cname, pw - 2) if pw > 2 else Poly.const(1))
                    out = out + base * (Poly.const(1) - Poly.atom(sname, 2))
                else:
                    out = out + Poly({k: v})
            p = out
        return p
    return Rat(red(d.n), d.d)


# --------------------------------------------------------------------------------------------------
def r2(R):
    R.rule("C19.R2", "point_by_point clones: get_voxel_idx's distance is |dty_in_beam - dty| and get_local_gv's x offset "
                     "is lx of sample_to_lab_sincos")
    pbp = pyfacts.module(R, "ImageD11/sinograms/point_by_point.py")
    geo = pyfacts.module(R, GEO)
    n = 0
    for qual in ("get_voxel_idx", "compute_gve_idx"):
        pass
    # structural: every call into geometry.* from point_by_point passes like-named arguments
    for fn_q, fn in pbp.funcs.items():
        for c in ast.walk(fn):
            if not isinstance(c, ast.Call):
                continue
            d = pyfacts.dotted(c.func) or ""
            parts = d.split(".")
            if len(parts) >= 2 and parts[-2] in ("geometry",) and parts[-1] in geo.funcs:
                callee = geo.funcs[parts[-1]]
                formals = [a.arg for a in callee.args.args]
                for i, a in enumerate(c.args):
                    if i >= len(formals):
                        continue
                    nm = _role(a)
                    ok = nm is None or formals[i] not in ROLE_WORDS or _compat(nm, formals[i])
                    n += 1
                    R.check(ok, "C19.R2", pbp.rel, c.lineno, fn_q, "%s(... #%d %s -> %s)" % (parts[-1], i, src(a), formals[i]),
                            "argument named like '%s' is passed in the slot of '%s'" % (nm, formals[i]))
                for kw in c.keywords:
                    if kw.arg is None:
                        continue
                    n += 1
                    R.check(kw.arg in formals, "C19.R2", pbp.rel, c.lineno, fn_q, "%s(%s=...)" % (parts[-1], kw.arg),
                            "keyword %s is not a parameter of geometry.%s" % (kw.arg, parts[-1]))
    if n == 0:
        R.note("C19.R2: point_by_point makes no positional calls into geometry.*; numba clones checked below")
    # numba clone: the in-beam distance
    cands = [q for q in pbp.funcs if q.split(".")[-1] in ("get_voxel_idx",)]
    for q in cands:
        fn = pbp.funcs[q]
        text = ast.unparse(fn)
        R.inst("C19.R2", "%s:%s present (%d lines)" % (pbp.rel, q, len(text.splitlines())))
    _clone_inbeam(R, pbp, geo)


ROLE_WORDS = {"sx": "sx", "sy": "sy", "y0": "y0", "dty": "dty", "omega": "omega", "om": "omega", "ystep": "ystep",
              "sinomega": "sinomega", "cosomega": "cosomega", "so": "sinomega", "co": "cosomega", "lx": "lx", "ly": "ly",
              "si": "si", "sj": "sj", "ri": "ri", "rj": "rj", "x": "sx", "y": "sy"}


def _role(a):
    d = pyfacts.dotted(a)
    if d is None:
        return None
    last = d.split(".")[-1]
    return ROLE_WORDS.get(last)


def _compat(role, formal):
    f = ROLE_WORDS.get(formal, formal)
    return role == f


def _clone_inbeam(R, pbp, geo):
    """value-number the numba helper that recomputes the in-beam dty against geometry.dty_values_grain_in_beam_sincos"""
    I = vn_py.Interp({"point_by_point": pbp, "geometry": geo})
    # find small pure functions of (sx/x, sy/y, y0, sinomega, cosomega)-like signature that return y0 - x*s - y*c
    sx, sy, y0, s, c = sym("sx"), sym("sy"), sym("y0"), sym("sinomega"), sym("cosomega")
    ref = I.call("geometry", "dty_values_grain_in_beam_sincos", sx, sy, y0, s, c)
    found = 0
    for q, fn in pbp.funcs.items():
        names = [a.arg for a in fn.args.args]
        body_txt = ast.unparse(fn)
        if "ydist" in body_txt and q.endswith("get_voxel_idx"):
            found += 1
            # ydist = abs(y0 - x*sinomega - y*cosomega - dty)
            asg = [n for n in ast.walk(fn) if isinstance(n, ast.Assign) and isinstance(n.targets[0], ast.Name)
                   and n.targets[0].id == "ydist"]
            ok = False
            why = "no 'ydist' assignment"
            for a in asg:
                e = a.value
                inner = e.args[0] if isinstance(e, ast.Call) and (pyfacts.dotted(e.func) or "").split(".")[-1] in ("abs", "fabs") and e.args else e
                inner = pyfacts.resolved(fn, inner, 3, keep=tuple(names))      # temporaries ( syr = x*sin + y*cos ) read through
                env = {}
                for n in ast.walk(inner):
                    if isinstance(n, ast.Name) and n.id not in ("np", "numpy", "abs"):
                        env[n.id] = sym(n.id)
                try:
                    val = I.expr(pbp, inner, env)
                except vn_py.Unsupported as ex:
                    why = str(ex)
                    continue
                # map the clone's own names to roles by position in the function signature
                xs = [k for k in env if (k.startswith("x") or k.startswith("sx"))]
                ys = [k for k in env if (k.startswith("y") or k.startswith("sy")) and k not in ("y0", "ystep")]
                sn = [k for k in env if k.lower().startswith("sin") or k in ("so", "s")]
                cn = [k for k in env if k.lower().startswith("cos") or k in ("co", "c")]
                dn = [k for k in env if k.startswith("dty")]
                yn = [k for k in env if k == "y0"]
                if not all(len(z) == 1 for z in (xs, ys, sn, cn, dn, yn)):
                    R.fail("C19.R2: cannot map get_voxel_idx's variable names to roles: %s" % sorted(env))
                refv = I.call("geometry", "dty_values_grain_in_beam_sincos", env[xs[0]], env[ys[0]], env[yn[0]], env[sn[0]], env[cn[0]])
                want = vn_py.R(refv) - env[dn[0]]
                v = vn_py.R(val)
                ok = vn.equal(v, want) or vn.equal(v, -want)
                why = "ydist argument %s differs from dty_in_beam - dty = %s" % (vn_py._short(v), vn_py._short(want))
            R.check(ok, "C19.R2", pbp.rel, fn.lineno, q, "ydist == |dty_values_grain_in_beam_sincos(...) - dty|", why)
    if found == 0:
        R.fail("C19.R2: get_voxel_idx/ydist clone not found in point_by_point.py (anchor moved)")


# --------------------------------------------------------------------------------------------------
def r3(R):
    R.rule("C19.R3", "roi_iradon.iradon: worker closures assign only their own locals; work is split by the stride "
                     "partition todo[j::workers]; accumulation happens in the submitting thread over an ordered map")
    m = pyfacts.module(R, "ImageD11/sinograms/roi_iradon.py")
    fn = m.func("iradon")
    inner = [n for n in ast.walk(fn) if isinstance(n, ast.FunctionDef) and n is not fn]
    R.check(bool(inner), "C19.R3", m.rel, fn.lineno, "iradon", "worker closure(s): %s" % [n.name for n in inner],
            "no nested worker function found")
    outer_locals = set()
    for n in ast.walk(fn):
        if isinstance(n, ast.Name) and isinstance(n.ctx, ast.Store):
            outer_locals.add(n.id)
    for w in inner:
        params = set(a.arg for a in w.args.args)
        own = set(params)
        for n in ast.walk(w):
            if isinstance(n, ast.Name) and isinstance(n.ctx, ast.Store):
                own.add(n.id)
        bad = []
        for n in ast.walk(w):
            if isinstance(n, (ast.Global, ast.Nonlocal)):
                bad.append("global/nonlocal %s" % ",".join(n.names))
            tgt = None
            if isinstance(n, (ast.Assign, ast.AugAssign)):
                tgts = n.targets if isinstance(n, ast.Assign) else [n.target]
                for t in tgts:
                    for sub in ast.walk(t):
                        if isinstance(sub, (ast.Subscript, ast.Attribute)):
                            b = sub
                            while isinstance(b, (ast.Subscript, ast.Attribute)):
                                b = b.value
                            if isinstance(b, ast.Name):
                                # store into a container: must be one created inside the worker
                                created = any(isinstance(x, ast.Assign) and any(isinstance(tt, ast.Name) and tt.id == b.id for tt in x.targets)
                                              for x in ast.walk(w))
                                if not created:
                                    bad.append("store into captured '%s'" % b.id)
        R.check(not bad, "C19.R3", m.rel, w.lineno, "iradon.%s" % w.name, "closure effects: %s" % (bad or "locals only"),
                "a worker writes state shared with other workers: %s" % bad)
    text = ast.unparse(fn)
    # the job list must be a disjoint, exhaustive partition of the projections
    jobs_asg = [n for n in ast.walk(fn) if isinstance(n, ast.Assign) and isinstance(n.targets[0], ast.Name)
                and any(isinstance(c, ast.Call) and isinstance(c.func, ast.Attribute) and c.func.attr == "map" and len(c.args) >= 2
                        and src(c.args[1]) == n.targets[0].id for c in ast.walk(fn))]
    if len(jobs_asg) != 1:
        R.fail("C19.R3: cannot find the job list handed to pool.map in iradon (%d candidates)" % len(jobs_asg))
    jv = jobs_asg[0].value
    verdict, why = partition_verdict(fn, jv)
    if verdict is None:
        R.fail("C19.R3: job list '%s' is not one of the partition idioms the rule understands: %s" % (src(jv)[:80], why))
    R.check(verdict, "C19.R3", m.rel, jobs_asg[0].lineno, "iradon", "job list %s" % src(jv)[:90],
            "the projections are not split into a disjoint, exhaustive partition: " + why)
    # serial branch and threaded branch iterate over the same index set
    serial = [c for c in ast.walk(fn) if isinstance(c, ast.Call) and pyfacts.dotted(c.func) == "run_interp" and c.args]
    todo = [n for n in ast.walk(fn) if isinstance(n, ast.Assign) and isinstance(n.targets[0], ast.Name) and n.targets[0].id == "todo"]
    if serial and not todo and isinstance(jv, (ast.ListComp, ast.GeneratorExp)) and isinstance(jv.elt, ast.Call) and len(jv.elt.args) == 3:
        a = src(serial[0].args[0]).replace("list(", "").replace(" ", "").rstrip(")").strip("()")
        b = "range(%s" % src(jv.elt.args[1]).replace(" ", "")
        R.check(a == b, "C19.R3", m.rel, serial[0].lineno, "iradon", "serial %s vs threaded stride over %s" % (src(serial[0].args[0]), src(jv.elt.args[1])),
                "the one-worker path and the threaded path do not cover the same projections")
    if serial and todo:
        a = src(serial[0].args[0]).replace("list(", "").rstrip(")")
        b = src(todo[0].value).replace("list(", "").rstrip(")")
        R.check(a.strip("()") == b.strip("()"), "C19.R3", m.rel, serial[0].lineno, "iradon", "serial %s vs threaded %s" % (src(serial[0].args[0]), src(todo[0].value)),
                "the one-worker path and the threaded path do not cover the same projections")
    maps = [n for n in ast.walk(fn) if isinstance(n, ast.Call) and isinstance(n.func, ast.Attribute) and n.func.attr in ("map", "imap", "imap_unordered", "submit")]
    R.check(any(c.func.attr == "map" for c in maps) and not any(c.func.attr in ("imap_unordered",) for c in maps), "C19.R3", m.rel,
            fn.lineno, "iradon", "pool methods used: %s" % sorted(set(c.func.attr for c in maps)),
            "partial reconstructions must be combined from an ordered map in the submitting thread")
    # accumulation statement in the submitting thread: for x in pool.map(...): acc += x
    acc = False
    for n in ast.walk(fn):
        if isinstance(n, ast.For) and isinstance(n.iter, ast.Call) and isinstance(n.iter.func, ast.Attribute) and n.iter.func.attr == "map":
            for s in n.body:
                if isinstance(s, ast.AugAssign) and isinstance(s.op, ast.Add):
                    acc = True
    R.check(acc, "C19.R3", m.rel, fn.lineno, "iradon", "for part in pool.map(...): recon += part",
            "accumulation of the workers' partial images is not a '+=' in the submitting thread")


def partition_verdict(fn, jv):
    """-> (True/False/None, reason) for the expression that builds the job list"""
    if isinstance(jv, ast.Call) and (pyfacts.dotted(jv.func) or "").split(".")[-1] == "array_split":
        return True, "np.array_split"
    if isinstance(jv, (ast.ListComp, ast.GeneratorExp)) and len(jv.generators) == 1:
        g = jv.generators[0]
        if g.ifs or not (isinstance(g.iter, ast.Call) and pyfacts.dotted(g.iter.func) == "range" and len(g.iter.args) == 1
                         and isinstance(g.target, ast.Name)):
            return None, "comprehension is not 'for j in range(W)'"
        W = src(g.iter.args[0])
        j = g.target.id
        e = jv.elt
        if isinstance(e, ast.Subscript) and isinstance(e.slice, ast.Slice):
            sl = e.slice
            if sl.upper is None and sl.lower is not None and sl.step is not None and src(sl.lower) == j and src(sl.step) == W:
                return True, "stride partition X[j::W], j in range(W)"
            return False, "slice %s is not the stride partition [j::%s]" % (src(e.slice), W)
        if isinstance(e, ast.Call) and pyfacts.dotted(e.func) == "range" and len(e.args) == 3:
            lo, hi, st = e.args
            if src(lo) == j and src(st) == W and j not in [x.id for x in ast.walk(hi) if isinstance(x, ast.Name)]:
                return True, "stride partition range(j, %s, W), j in range(W)" % src(hi)
            return False, "range(%s, %s, %s) is not the stride partition range(j, N, %s)" % (src(lo), src(hi), src(st), W)
        if isinstance(e, ast.Call) and pyfacts.dotted(e.func) == "range" and len(e.args) == 2:
            lo, hi = e.args
            # range(j*c, (j+1)*c): exhaustive only if W*c == N, which a floor division does not give
            cname = None
            for side in (lo, hi):
                for n in ast.walk(side):
                    if isinstance(n, ast.Name) and n.id not in (j,):
                        cname = n.id
            cdef = [a for a in ast.walk(fn) if isinstance(a, ast.Assign) and isinstance(a.targets[0], ast.Name) and a.targets[0].id == cname]
            if cdef and isinstance(cdef[0].value, ast.BinOp) and isinstance(cdef[0].value.op, ast.FloorDiv):
                return False, "contiguous chunks of size %s = %s drop the remainder of the division" % (cname, src(cdef[0].value))
            return None, "contiguous chunks with an unrecognised chunk size"
    return None, "unrecognised construction"


# --------------------------------------------------------------------------------------------------
def r4(R):
    R.rule("C19.R4", "consumers pass geometry.sino_shift_and_pad's (shift, pad) into run_iradon's like-named parameters")
    roi = pyfacts.module(R, "ImageD11/sinograms/roi_iradon.py")
    ri = roi.func("run_iradon")
    formals = [a.arg for a in ri.args.args]
    n = 0
    for rel in ("ImageD11/sinograms/sinogram.py", "ImageD11/sinograms/point_by_point.py", "ImageD11/sinograms/tensor_map.py"):
        m = pyfacts.module(R, rel)
        if "run_iradon" not in m.text:
            continue
        for q, fn in m.funcs.items():
            for c in ast.walk(fn):
                if isinstance(c, ast.Call) and (pyfacts.dotted(c.func) or "").split(".")[-1] == "run_iradon":
                    if m.enclosing_function(c) is not fn:
                        continue
                    binding = {}
                    for i, a in enumerate(c.args):
                        if i < len(formals):
                            binding[formals[i]] = a
                    for kw in c.keywords:
                        if kw.arg:
                            binding[kw.arg] = kw.value
                    for role in ("shift", "pad"):
                        if role not in binding:
                            continue
                        n += 1
                        txt = src(binding[role])
                        ok = role in txt.lower()
                        R.check(ok, "C19.R4", rel, c.lineno, q, "run_iradon(%s=%s)" % (role, txt),
                                "the value passed as '%s' is not the %s computed for this sinogram" % (role, role))
                    for kw in c.keywords:
                        if kw.arg and kw.arg not in formals:
                            n += 1
                            R.check(False, "C19.R4", rel, c.lineno, q, "run_iradon(%s=...)" % kw.arg, "unknown keyword")
            # sino_shift_and_pad unpack order
            for a in ast.walk(fn):
                if isinstance(a, ast.Assign) and isinstance(a.value, ast.Call) and \
                        (pyfacts.dotted(a.value.func) or "").split(".")[-1] == "sino_shift_and_pad" and isinstance(a.targets[0], ast.Tuple):
                    if m.enclosing_function(a) is not fn:
                        continue
                    names = [src(t).lower() for t in a.targets[0].elts]
                    n += 1
                    ok = len(names) == 2 and ("shift" in names[0] or names[0] == "_") and ("pad" in names[1] or names[1] == "_")
                    R.check(ok, "C19.R4", rel, a.lineno, q, "%s = sino_shift_and_pad(...)" % src(a.targets[0]),
                            "sino_shift_and_pad returns (shift, pad); the unpacking swaps or renames them")
    # and the producer returns (shift, pad) in that order
    g = pyfacts.module(R, GEO)
    sp = g.func("sino_shift_and_pad")
    rets = [r for r in ast.walk(sp) if isinstance(r, ast.Return)]
    ok = all(isinstance(r.value, ast.Tuple) and len(r.value.elts) == 2 and "shift" in src(r.value.elts[0]).lower()
             and "pad" in src(r.value.elts[1]).lower() for r in rets) and bool(rets)
    R.check(ok, "C19.R4", GEO, sp.lineno, "sino_shift_and_pad", "return (shift, pad)", "producer's return order changed")
    R.floor("C19.R4", 4)



# --------------------------------------------------------------------------------------------------
def r5(R):
    R.rule("C19.R5", "sino_shift_and_pad: shift is the SIGNED offset ny/2 - (y0 - ymin)/ystep (an identity in y0, ny, ymin, ystep), the "
                     "unrounded form of dty_to_dtyi(y0); pad is ceil(2|shift|) + 1")
    I, m = interp(R)
    if not m.has("sino_shift_and_pad"):
        R.fail("geometry.sino_shift_and_pad vanished")
    fn = m.func("sino_shift_and_pad")
    y0, ny, ymin, ystep = sym("y0"), sym("ny"), sym("ymin"), sym("ystep")
    out = I.call("geometry", "sino_shift_and_pad", y0, ny, ymin, ystep)
    R.shape(isinstance(out, (tuple, list)) and len(out) == 2, "C19.R5", GEO, "sino_shift_and_pad", "a (shift, pad) pair")
    shift = vn_py.R(out[0])
    want = ny * vn.const(1) / vn.const(2) - (y0 - ymin) / ystep
    R.check(vn.equal(shift, want), "C19.R5", GEO, fn.lineno, "sino_shift_and_pad", "shift == ny/2 - (y0 - ymin)/ystep",
            "the shift handed to the reconstruction is not the signed distance between the middle row and the rotation axis (got %s): "
            "scans whose axis lies on the other side of the middle are back-projected about the wrong centre" % vn_py._short(shift))
    # consistency with the module's own discretisation: dty_to_dtyi(y0) == round(ny/2 - shift)
    if m.has("dty_to_dtyi"):
        di = vn_py.R(I.call("geometry", "dty_to_dtyi", y0, ystep, ymin))
        R.check(vn.equal(di, vn.app("rnd", ny * vn.const(1) / vn.const(2) - shift)), "C19.R5", GEO, fn.lineno, "sino_shift_and_pad",
                "dty_to_dtyi(y0) == round(ny/2 - shift)", "the axis row used for the shift disagrees with the module's dty -> dtyi conversion")
    # pad
    pad = vn_py.R(out[1])
    ok = False
    for absname in ("abs", "fabs", "absolute"):
        for ceilname in ("ceil",):
            cand = vn.app(ceilname, vn.app(absname, want) * vn.const(2)) + vn.const(1)
            if vn.equal(pad, cand):
                ok = True
    R.check(ok, "C19.R5", GEO, fn.lineno, "sino_shift_and_pad", "pad == ceil(2*|shift|) + 1",
            "the padding is not twice the magnitude of the shift plus one: part of the sample leaves the frame (got %s)" % vn_py._short(pad))

