"""C15  N-D peak merging equals graph connected components on any schedule.

A generic race rule would flag numbalabelNd (data-dependent read-modify-write of a shared array under prange).
That would be a false alarm: the result is schedule independent by a hand argument whose PREMISES are syntactic
and are what this check verifies:
R1 every write of the sweep is pkid[x] = min(pkid[a], pkid[b]) to both ends x of the edge the two values were read
   from, under pi != pj, and nbad is incremented exactly on the writing path (so values are always node ids of the
   same component, only decrease, and a sweep that returns 0 wrote nothing);
R2 find_ND_labels leaves its loop only after a sweep over the same arrays returned 0, starting from labels = arange;
R3 get_clean_labels: the counting/renumbering loop is sequential; the prange loop writes only its own cell, under
   'own value < 0', and reads otherwise only labels[-own value] (a root cell, which fails that guard);
R4 merged-peak field table: rows 0..6 of numbapkmerge <-> the dictionary of pk2dmerge; the scale_factor branch is
   the other branch with rows 1..5 multiplied by scale;
R5 prange discipline in properties.py: inside a prange loop array stores are indexed by the loop variable (or are
   the two listed label kernels); a scatter-add out[.., labels[k]] += .. is only legal in a sequential loop.
Assumed: aligned 8-byte stores are not torn; termination. Not decided: equality of the sums with an oracle.
"""
import ast
import re

from engine import pyfacts
from engine.pyfacts import src

PID = "C15"
REL = "ImageD11/sinograms/properties.py"


def is_prange(loop):
    it = loop.iter
    return isinstance(it, ast.Call) and (pyfacts.dotted(it.func) or "").split(".")[-1] == "prange"


def parallel_decorated(fn):
    for d in fn.decorator_list:
        if isinstance(d, ast.Call) and "njit" in src(d.func) or isinstance(d, ast.Call) and "jit" in src(d.func):
            for kw in d.keywords:
                if kw.arg == "parallel" and isinstance(kw.value, ast.Constant) and kw.value.value is True:
                    return True
    return False


def run(R):
    R.assume("numba prange: iterations may run concurrently in any order; scalar '+=' reductions are recognised by numba; "
             "aligned 8-byte loads/stores are atomic")
    m = pyfacts.module(R, REL)
    if R.want("C15.R1"):
        r1(R, m)
    if R.want("C15.R2"):
        r2(R, m)
    if R.want("C15.R3"):
        r3(R, m)
    if R.want("C15.R4"):
        r4(R, m)
    if R.want("C15.R5"):
        r5(R, m)
    if R.want("C15.R6"):
        r6(R, m)
    if R.want("C15.R7"):
        r7(R, m)


def r1(R, m):
    R.rule("C15.R1", "numbalabelNd: the only array writes are pkid[i[p]] = m and pkid[j[p]] = m with m = min(pkid[i[p]], pkid[j[p]]) of the "
                     "same edge p, under pi != pj; nbad += 1 exactly on that path")
    fn = m.func("numbalabelNd")
    loops = [l for l in ast.walk(fn) if isinstance(l, ast.For)]
    nexpr = "len(%s)" % fn.args.args[0].arg
    if len(loops) == 2 and is_prange(loops[0]) and loops[1] in ast.walk(loops[0]) and len(loops[0].body) == 1:
        # blocked sweep: one contiguous block of edges per parallel iteration; it must still visit every edge once
        outer, inner = loops
        t = src(outer.target)
        it = inner.iter
        ok_inner = isinstance(it, ast.Call) and src(it.func) == "range" and len(it.args) == 2
        R.shape(ok_inner, "C15.R1", REL, "numbalabelNd", "inner block loop 'for k in range(lo, hi)'")
        lo, hi = src(it.args[0]).replace(" ", ""), src(it.args[1]).replace(" ", "")
        nb = src(outer.iter.args[0]).replace(" ", "") if isinstance(outer.iter, ast.Call) and outer.iter.args else None
        defs = {src(a.targets[0]): a.value for a in ast.walk(fn) if isinstance(a, ast.Assign) and isinstance(a.targets[0], ast.Name)}
        m1 = re.match(r"^%s\*(\w+)$" % re.escape(t), lo) or re.match(r"^(\w+)\*%s$" % re.escape(t), lo)
        R.shape(m1 is not None and nb is not None, "C15.R1", REL, "numbalabelNd", "block bounds t*blk .. min((t+1)*blk, n)")
        blk = m1.group(1)
        n_ = nexpr.replace(" ", "")
        hi_ok = hi in ("min((%s+1)*%s,%s)" % (t, blk, n_), "min(%s,(%s+1)*%s)" % (n_, t, blk), "min(%s*(%s+1),%s)" % (blk, t, n_))
        R.shape(hi_ok and blk in defs, "C15.R1", REL, "numbalabelNd", "block end min((t+1)*blk, len(i)) with blk defined in the function")
        bdef = src(defs[blk]).replace(" ", "")
        nbv = src(defs[nb]).replace(" ", "") if nb in defs else nb
        ceil_forms = ("(%s+%s-1)//%s" % (n_, nb, nb), "(%s-1+%s)//%s" % (n_, nb, nb), "-(-%s//%s)" % (n_, nb), "(%s+%s-1)//%s" % (nb, n_, nb),
                      "max(1,(%s+%s-1)//%s)" % (n_, nb, nb), "max(1,-(-%s//%s))" % (n_, nb))
        covering = bdef in ceil_forms
        R.check(covering, "C15.R1", REL, inner.lineno, "numbalabelNd", "blocks of %s = %s edges over %s parallel iterations cover all %s edges" % (blk, src(defs[blk]), nb, nexpr),
                "the block size is not the ceiling of len(i)/%s: the last len(i) %% %s edges (first ones on the reversed sweep) are never "
                "visited, so a sweep that reports 0 changes no longer certifies that every edge agrees" % (nb, nb))
        lp = inner
    else:
        R.shape(len(loops) == 1 and is_prange(loops[0]), "C15.R1", REL, "numbalabelNd", "the single prange sweep (or a blocked sweep prange(nblk) x range(block))")
        lp = loops[0]
        it = lp.iter
        R.check(isinstance(it, ast.Call) and len(it.args) == 1 and pyfacts.resolved_src(fn, it.args[0], 3, keep=tuple(a.arg for a in fn.args.args)).replace(" ", "") == nexpr.replace(" ", ""),
                "C15.R1", REL, lp.lineno, "numbalabelNd",
                "the sweep runs over prange(%s)" % nexpr, "the sweep does not visit every edge: %s" % src(it))
    args = [a.arg for a in fn.args.args]
    ei, ej, lab = args[0], args[1], args[2]
    # every expression is read with uniquely-defined locals replaced by their definitions (ip = i[p]; pkid[ip] = m  reads as
    # pkid[i[k + flip * (len(i) - 1 - 2 * k)]] = min(...)), so the names and the number of temporaries are free
    loopvars = tuple(src(l.target) for l in ast.walk(fn) if isinstance(l, ast.For))
    rs = lambda n: pyfacts.resolved_src(fn, n, 6, keep=tuple(args) + loopvars).replace(" ", "")
    kv = src(lp.target)
    PERMS = ("%s+flip*(len(%s)-1-2*%s)" % (kv, ei, kv), kv)
    stores = [s for s in ast.walk(lp) if isinstance(s, (ast.Assign, ast.AugAssign)) and isinstance((s.targets[0] if isinstance(s, ast.Assign) else s.target), ast.Subscript)]
    R.check(len(stores) == 2 and all(isinstance(s, ast.Assign) for s in stores), "C15.R1", REL, lp.lineno, "numbalabelNd", "exactly two array stores in the sweep (%d found)" % len(stores),
            "the sweep writes something other than the two ends of the edge")
    if len(stores) != 2:
        return
    tg = sorted(rs(s.targets[0]) for s in stores)
    ptexts = set()
    for s in stores:
        t = rs(s.targets[0])
        mm = re.match(r"^%s\[(%s|%s)\[(.*)\]\]$" % (re.escape(lab), re.escape(ei), re.escape(ej)), t)
        R.check(mm is not None, "C15.R1", REL, s.lineno, "numbalabelNd", "store target %s" % t, "a store does not go to pkid[i[p]] / pkid[j[p]]")
        if mm:
            ptexts.add(mm.group(2))
    R.check(len(ptexts) == 1 and tg == sorted(["%s[%s[%s]]" % (lab, ei, list(ptexts)[0]), "%s[%s[%s]]" % (lab, ej, list(ptexts)[0])]) if ptexts else False,
            "C15.R1", REL, lp.lineno, "numbalabelNd", "both ends of the same edge are written: %s" % tg, "the two stores are not the two ends of one edge")
    if len(ptexts) != 1:
        return
    P = list(ptexts)[0]
    vals = set(rs(s.value) for s in stores)
    R.check(len(vals) == 1, "C15.R1", REL, lp.lineno, "numbalabelNd", "both ends receive the same value %s" % vals, "the two ends receive different labels")
    mv = list(vals)[0]
    ends = ["%s[%s[%s]]" % (lab, ei, P), "%s[%s[%s]]" % (lab, ej, P)]
    ok = mv in ("min(%s,%s)" % (ends[0], ends[1]), "min(%s,%s)" % (ends[1], ends[0]))
    if not ok:
        # the same minimum written as a conditional expression:  a if a < b else b  (any of the equivalent orientations)
        vn_ = pyfacts.resolved(fn, stores[0].value, 6, keep=tuple(args) + loopvars)
        if isinstance(vn_, ast.IfExp) and isinstance(vn_.test, ast.Compare) and len(vn_.test.ops) == 1:
            nw = lambda x_: src(x_).replace(" ", "")
            l_, r_, op_ = nw(vn_.test.left), nw(vn_.test.comparators[0]), type(vn_.test.ops[0]).__name__
            b_, o_ = nw(vn_.body), nw(vn_.orelse)
            if {l_, r_} == set(ends) and {b_, o_} == set(ends):
                smaller_first = (op_ in ("Lt", "LtE") and b_ == l_) or (op_ in ("Gt", "GtE") and b_ == r_)
                ok = smaller_first
    R.check(ok, "C15.R1", REL, lp.lineno, "numbalabelNd", "stored value %s = min of the two labels read from the same edge" % mv,
            "the stored label is not the minimum of the two current labels of that edge: labels could leave the component or grow")
    rd = {ends[0]: ends[0], ends[1]: ends[1]}
    # guard and reduction
    cfgf = pyfacts.PyCFG(fn)
    for s in stores:
        g = [(rs(t).replace("!=", " != "), pol) for t, pol in cfgf.guards(cfgf.node_of(s))]
        names = list(rd.keys()) if rd else []
        okg = len(names) == 2 and (("%s != %s" % (names[0], names[1]), True) in g or ("%s != %s" % (names[1], names[0]), True) in g)
        R.check(okg, "C15.R1", REL, s.lineno, "numbalabelNd", "store guarded by %s != %s" % tuple(names) if len(names) == 2 else "store guard",
                "labels are rewritten even when the edge already agrees: a sweep returning 0 would no longer mean 'nothing written'")
    red = [s for s in ast.walk(lp) if isinstance(s, ast.AugAssign) and isinstance(s.target, ast.Name)]
    R.check(len(red) == 1 and isinstance(red[0].op, ast.Add) and src(red[0].value) == "1", "C15.R1", REL, lp.lineno, "numbalabelNd", "single scalar reduction nbad += 1",
            "the change counter is not a plain '+= 1' reduction")
    if red:
        # same block as the stores
        par = getattr(red[0], "_parent", None)
        R.check(all(getattr(s, "_parent", None) is par for s in stores), "C15.R1", REL, red[0].lineno, "numbalabelNd", "nbad += 1 in the block that writes",
                "the counter is incremented on a different path than the writes: 'returned 0' and 'wrote nothing' no longer coincide")
        rets = [r for r in ast.walk(fn) if isinstance(r, ast.Return)]
        R.check(len(rets) == 1 and src(rets[0].value) == src(red[0].target), "C15.R1", REL, fn.lineno, "numbalabelNd", "returns the change counter", "the sweep does not return the number of changes")
        init = [s for s in fn.body if isinstance(s, ast.Assign) and src(s.targets[0]) == src(red[0].target)]
        R.check(len(init) == 1 and src(init[0].value) == "0", "C15.R1", REL, fn.lineno, "numbalabelNd", "counter starts at 0", "counter not initialised to 0")
    # p is a bijection of k : k + flip*(N-2k) with N = len(i)-1
    R.check(P in PERMS, "C15.R1", REL, lp.lineno, "numbalabelNd", "edge index p = %s" % P,
            "the edge visited is not a permutation of the loop index: some edges may never be visited")


def r2(R, m):
    R.rule("C15.R2", "find_ND_labels: labels start as arange(npks); the loop is left only when the latest sweep over (i, j, labels) returned 0")
    fn = pyfacts.normalise_endless_for(pyfacts.clone(m.ifunc("find_ND_labels", keep=("numbalabelNd", "get_clean_labels"))))
    init = [s for s in fn.body if isinstance(s, ast.Assign) and src(s.targets[0]) == "labels"]
    R.check(len(init) == 1 and "arange(npks" in src(init[0].value), "C15.R2", REL, fn.lineno, "find_ND_labels", "labels = np.arange(npks)", "labels do not start as the identity")
    # path property on the flow graph: every path that reaches the renumbering comes from a sweep  T = numbalabelNd(i, j, labels, ..)
    # followed, with no newer sweep and no other assignment of T in between, by a branch that implies T == 0.  The shape of the
    # loop (while 1 + break, while T != 0, helpers for the progress output) is free.
    sweeps = [c for c in ast.walk(fn) if isinstance(c, ast.Call) and pyfacts.dotted(c.func) == "numbalabelNd"]
    R.shape(len(sweeps) >= 1, "C15.R2", REL, "find_ND_labels", "calls of numbalabelNd")
    for c in sweeps:
        st = pyfacts.containing_stmt(c)
        R.check([src(x) for x in c.args[:3]] == ["i", "j", "labels"] and isinstance(st, ast.Assign) and st.value is c and len(st.targets) == 1 and isinstance(st.targets[0], ast.Name),
                "C15.R2", REL, c.lineno, "find_ND_labels", "T = numbalabelNd(i, j, labels, ...)", "the tested count does not come from a sweep over the same edge list and label array")
    # ... and "the same edge list" means the names still hold what the caller passed: a sweep over a shortened list ends with 0
    # changes while dropped pairs disagree again after a later label change
    rebound = sorted(set(x.id for x in ast.walk(fn) if isinstance(x, ast.Name) and isinstance(x.ctx, (ast.Store, ast.Del)) and x.id in ("i", "j")))
    R.check(not rebound, "C15.R2", REL, fn.lineno, "find_ND_labels", "the edge arrays i, j are never rebound inside find_ND_labels",
            "the edge list is replaced (%s rebound) between sweeps: a sweep that reports 0 changes over a reduced list does not certify that every "
            "original pair agrees" % ", ".join(rebound))
    lab_sets = [a_ for a_ in ast.walk(fn) if isinstance(a_, (ast.Assign, ast.AugAssign)) for t_ in (a_.targets if isinstance(a_, ast.Assign) else [a_.target])
                if isinstance(t_, ast.Name) and t_.id == "labels"]
    R.check(len(lab_sets) == 1, "C15.R2", REL, fn.lineno, "find_ND_labels", "labels is bound once (the identity start) and then only updated by the sweeps",
            "the label array is replaced between sweeps")
    post_ = [s_ for s_ in ast.walk(fn) if isinstance(s_, ast.Assign) and isinstance(s_.value, ast.Call) and pyfacts.dotted(s_.value.func) == "get_clean_labels"]
    R.shape(len(post_) == 1, "C15.R2", REL, "find_ND_labels", "the get_clean_labels call")
    cfg = pyfacts.PyCFG(fn)
    target = cfg.node_of(post_[0])

    def implies_zero(e, pol, v):
        if isinstance(e, ast.UnaryOp) and isinstance(e.op, ast.Not):
            return implies_zero(e.operand, not pol, v)
        if isinstance(e, ast.BoolOp):
            if isinstance(e.op, ast.And) and pol:
                return any(implies_zero(x, True, v) for x in e.values)
            if isinstance(e.op, ast.Or) and not pol:
                return any(implies_zero(x, False, v) for x in e.values)
            return False
        if isinstance(e, ast.Name):
            return e.id == v and not pol
        if isinstance(e, ast.Compare) and len(e.ops) == 1:
            l, r, op = e.left, e.comparators[0], type(e.ops[0]).__name__
            flip = {"Lt": "Gt", "Gt": "Lt", "LtE": "GtE", "GtE": "LtE", "Eq": "Eq", "NotEq": "NotEq"}
            if isinstance(r, ast.Name) and r.id == v and isinstance(l, ast.Constant):
                l, r, op = r, l, flip.get(op)
            if not (isinstance(l, ast.Name) and l.id == v and isinstance(r, ast.Constant) and isinstance(r.value, int) and not isinstance(r.value, bool)):
                return False
            c0 = r.value
            # the sweep count is >= 0
            true_zero = {"Eq": c0 == 0, "LtE": c0 == 0, "Lt": c0 == 1}
            false_zero = {"NotEq": c0 == 0, "Gt": c0 == 0, "GtE": c0 == 1}
            return bool((true_zero if pol else false_zero).get(op, False))
        return False

    def transfer(n, toks):
        if n.k == "assume":
            return frozenset(("Z", t[1]) if t != "N" and implies_zero(n.node, n.pol, t[1]) else t for t in toks)
        if n.k == "stmt" and isinstance(n.node, ast.Assign) and isinstance(n.node.value, ast.Call) and pyfacts.dotted(n.node.value.func) == "numbalabelNd" \
                and len(n.node.targets) == 1 and isinstance(n.node.targets[0], ast.Name):
            return frozenset([("S", n.node.targets[0].id)])
        if n.k == "stmt" and isinstance(n.node, (ast.Assign, ast.AugAssign, ast.AnnAssign, ast.For)):
            tg = n.node.targets if isinstance(n.node, ast.Assign) else [n.node.target]
            names = {x.id for t in tg for x in ast.walk(t) if isinstance(x, ast.Name)}
            return frozenset("N" if (t != "N" and t[1] in names) else t for t in toks)
        return toks
    state = {cfg.entry.id: frozenset(["N"])}
    work = [cfg.entry.id]
    outs = {}
    while work:
        nid = work.pop()
        o = transfer(cfg.nodes[nid], state.get(nid, frozenset()))
        if outs.get(nid) == o:
            continue
        outs[nid] = o
        for suc in cfg.g.successors(nid):
            merged = state.get(suc, frozenset()) | o
            if merged != state.get(suc):
                state[suc] = merged
                work.append(suc)
            elif suc not in outs:
                work.append(suc)
    at = state.get(target.id, frozenset())
    R.shape(bool(at), "C15.R2", REL, "find_ND_labels", "a path to get_clean_labels")
    bad = sorted(str(t) for t in at if t == "N" or t[0] != "Z")
    R.check(not bad, "C15.R2", REL, post_[0].lineno, "find_ND_labels", "every path to the renumbering passes 'latest sweep count == 0' (states %s)" % sorted(map(str, at)),
            "the loop can stop while edges still disagree: a path reaches get_clean_labels with the latest sweep count untested or non-zero (%s)" % bad)
    R.check(len(post_[0].value.args) >= 1 and src(post_[0].value.args[0]) == "labels", "C15.R2", REL, post_[0].lineno, "find_ND_labels", "get_clean_labels(labels) after convergence",
            "renumbering is not applied to the converged label array")
    rets = [r for r in ast.walk(fn) if isinstance(r, ast.Return)]
    R.check(len(rets) == 1 and src(rets[0].value) == "(n, labels)", "C15.R2", REL, fn.lineno, "find_ND_labels", "returns (n, labels)", "return value changed")


def _sign_test_numbering(R, fn, L):
    """Positive evidence, whatever the loop layout: the branch that counts a root (increments the returned counter)
    is chosen by the SIGN of labels[i] although non-roots are tagged by negation.  The tag of a pointer to peak 0 is
    -0 == 0, which no sign test separates from a root: every member of peak 0's group is counted as a group."""
    rets = [r for r in ast.walk(fn) if isinstance(r, ast.Return) and isinstance(r.value, ast.Name)]
    if len(rets) != 1:
        return
    cntname = rets[0].value.id
    par = {}
    for n_ in ast.walk(fn):
        for c in ast.iter_child_nodes(n_):
            par[c] = n_
    negtag = [s_ for s_ in ast.walk(fn) if isinstance(s_, ast.Assign) and isinstance(s_.targets[0], ast.Subscript) and src(s_.targets[0].value) == L
              and isinstance(s_.value, ast.UnaryOp) and isinstance(s_.value.op, ast.USub)] + \
             [s_ for s_ in ast.walk(fn) if isinstance(s_, ast.AugAssign) and isinstance(s_.target, ast.Subscript) and src(s_.target.value) == L
              and isinstance(s_.op, ast.Mult) and src(s_.value) in ("-1", "(-1)")]
    if not negtag:
        return
    incs = [s_ for s_ in ast.walk(fn) if (isinstance(s_, ast.AugAssign) and isinstance(s_.op, ast.Add) and src(s_.target) == cntname)
            or (isinstance(s_, ast.Assign) and src(s_.targets[0]) == cntname and isinstance(s_.value, ast.BinOp) and cntname in src(s_.value))]
    for inc in incs:
        loop, guards, cur = None, [], inc
        while cur in par:
            up = par[cur]
            if isinstance(up, ast.If):
                guards.append((up.test, cur in up.body))
            if isinstance(up, ast.For):
                loop = up
                break
            cur = up
        if loop is None or not isinstance(loop.target, ast.Name):
            continue
        iv = loop.target.id
        own = "%s[%s]" % (L, iv)

        def sign_only(test, pos):
            # True when (test taken as pos) is equivalent to own >= 0, i.e. a sign test
            t = pyfacts.resolved_src(fn, test, 3, keep=(L, iv)).replace(" ", "")
            if t.startswith("not") and t[3:4] in "(" + L[0]:
                t, pos = t[3:].strip("()"), not pos
            forms_true = ("%s>=0" % own, "0<=%s" % own, "%s>-1" % own, "-1<%s" % own)
            forms_false = ("%s<0" % own, "0>%s" % own, "%s<=-1" % own, "-1>=%s" % own)
            return (pos and t in forms_true) or ((not pos) and t in forms_false)
        has_eq = any(re.search(r"(%s==%s|%s==%s)" % (re.escape(own), iv, iv, re.escape(own)),
                               pyfacts.resolved_src(fn, t_, 3, keep=(L, iv)).replace(" ", "")) and pos for t_, pos in guards)
        if guards and not has_eq and any(sign_only(t_, pos) for t_, pos in guards):
            R.violation("C15.R3", REL, inc.lineno, "get_clean_labels", "%s counted under a sign test of %s" % (cntname, own),
                        "non-roots are tagged by negation (line %d) and the tag of a pointer to peak 0 is -0 == 0: a sign test counts every "
                        "member of peak 0's group as a group of its own (labels [0, 0] give 2 groups)" % negtag[0].lineno)
        else:
            R.inst("C15.R3", "counter %s incremented under %s" % (cntname, " and ".join(("" if pos else "not ") + src(t_) for t_, pos in guards) or "no guard"))


def r3(R, m):
    R.rule("C15.R3", "get_clean_labels: sequential counting loop gives roots (labels[i] == i) the next number and negates the rest; the prange "
                     "loop writes only labels[i] under own value j < 0 and reads only labels[-j]")
    fn = pyfacts.normalise_continue_else(pyfacts.clone(m.ifunc("get_clean_labels")))      # helpers inlined, counting while loops read as for loops over range(), 'if c: ..; continue' as if / else
    L = fn.args.args[0].arg                # the label array, whatever it is called
    loops = [l for l in fn.body if isinstance(l, ast.For)]
    _sign_test_numbering(R, fn, L)
    R.shape(len(loops) == 2, "C15.R3", REL, "get_clean_labels", "the counting loop and the relabelling loop")
    cnt, rel = loops
    R.check(not is_prange(cnt) and isinstance(cnt.iter, ast.Call) and pyfacts.dotted(cnt.iter.func) == "range", "C15.R3", REL, cnt.lineno, "get_clean_labels", "counting loop is a plain range()",
            "the numbering of the roots depends on iteration order: it must be sequential")
    full = lambda it: isinstance(it, ast.Call) and len(it.args) == 1 and pyfacts.resolved_src(fn, it.args[0], 3, keep=(L,)).replace(" ", "") in ("len(%s)" % L, "%s.size" % L, "%s.shape[0]" % L)
    R.check(full(cnt.iter) and full(rel.iter), "C15.R3", REL, cnt.lineno, "get_clean_labels", "both loops run over all of %s" % L, "a loop does not visit every label")
    iv = src(cnt.target)
    ifs = [s_ for s_ in cnt.body if isinstance(s_, ast.If)]
    R.shape(len(ifs) == 1, "C15.R3", REL, "get_clean_labels", "the root test inside the counting loop")
    test = src(ifs[0].test).replace(" ", "")
    root_first = test in ("%s[%s]==%s" % (L, iv, iv), "%s==%s[%s]" % (iv, L, iv))
    root_second = test in ("%s[%s]!=%s" % (L, iv, iv), "%s!=%s[%s]" % (iv, L, iv))
    R.check(root_first or root_second, "C15.R3", REL, ifs[0].lineno, "get_clean_labels", "root test %s" % src(ifs[0].test), "roots are not recognised by labels[i] == i")
    tb = [src(s_).replace(" ", "") for s_ in (ifs[0].body if root_first else ifs[0].orelse)]
    eb = [src(s_).replace(" ", "") for s_ in (ifs[0].orelse if root_first else ifs[0].body)]
    mcount = re.match(r"^%s\[%s\]=(\w+)$" % (re.escape(L), re.escape(iv)), tb[0]) if tb else None
    nname = mcount.group(1) if mcount else None
    ok = nname is not None and tb[1:] in (["%s+=1" % nname], ["%s=%s+1" % (nname, nname)], ["%s=1+%s" % (nname, nname)]) \
        and eb in (["%s[%s]=-%s[%s]" % (L, iv, L, iv)], ["%s[%s]*=-1" % (L, iv)])
    R.check(ok, "C15.R3", REL, cnt.lineno, "get_clean_labels", "root: labels[i] = n; n += 1   else: labels[i] = -labels[i]", "roots are not numbered consecutively in index order, or non-roots are not tagged")
    if nname:
        init = [s_ for s_ in fn.body if isinstance(s_, ast.Assign) and src(s_.targets[0]) == nname]
        R.check(len(init) == 1 and src(init[0].value) == "0" and init[0].lineno < cnt.lineno, "C15.R3", REL, fn.lineno, "get_clean_labels", "%s starts at 0" % nname, "the numbering does not start at 0")
    R.check(is_prange(rel), "C15.R3", REL, rel.lineno, "get_clean_labels", "relabelling loop is a prange", "shape changed")
    iv2 = src(rel.target)
    rs = lambda n_: pyfacts.resolved_src(fn, n_, 3, keep=(L, iv2)).replace(" ", "")
    stores = [s_ for s_ in ast.walk(rel) if isinstance(s_, (ast.Assign, ast.AugAssign)) and isinstance((s_.targets[0] if isinstance(s_, ast.Assign) else s_.target), ast.Subscript)]
    R.check(len(stores) == 1 and isinstance(stores[0], ast.Assign) and src(stores[0].targets[0]) == "%s[%s]" % (L, iv2), "C15.R3", REL, rel.lineno, "get_clean_labels", "only store: %s[%s]" % (L, iv2),
            "an iteration writes a cell other than its own")
    OWN = "%s[%s]" % (L, iv2)
    if stores and isinstance(stores[0], ast.Assign):
        par = getattr(stores[0], "_parent", None)
        R.check(isinstance(par, ast.If) and stores[0] in par.body and rs(par.test) in ("%s<0" % OWN, "0>%s" % OWN), "C15.R3", REL, stores[0].lineno, "get_clean_labels",
                "store guarded by own value < 0", "root cells (value >= 0) can be rewritten while other iterations read them")
        R.check(rs(stores[0].value) == "%s[-%s]" % (L, OWN), "C15.R3", REL, stores[0].lineno, "get_clean_labels", "value read from labels[-own value]",
                "the new label is not read from the root the tag points to")
    reads = [x for x in ast.walk(rel) if isinstance(x, ast.Subscript) and src(x.value) == L and isinstance(x.ctx, ast.Load)]
    R.check(sorted(set(rs(x) for x in reads)) == sorted([OWN, "%s[-%s]" % (L, OWN)]), "C15.R3", REL, rel.lineno, "get_clean_labels",
            "reads: own cell and labels[-own value]", "the parallel loop reads other cells that may be written concurrently")
    rets = [r for r in ast.walk(fn) if isinstance(r, ast.Return)]
    R.check(len(rets) == 1 and nname is not None and src(rets[0].value) == nname, "C15.R3", REL, fn.lineno, "get_clean_labels", "returns the number of roots", "returned count is not the number of labels")


def r4(R, m):
    R.rule("C15.R4", "numbapkmerge rows 0..6 = (pixels, I, row*I, col*I, omega*I, dty*I, count) feed pk2dmerge's dictionary "
                     "(s_raw=2/1, f_raw=3/1, omega=4/1, dty=5/1, Number_of_pixels=0, sum_intensity=1, npk2d=6); the scale branch equals "
                     "the other with rows 1..5 times scale")
    fn = m.func("numbapkmerge")
    lp = [l for l in ast.walk(fn) if isinstance(l, ast.For)]
    R.shape(len(lp) == 1, "C15.R4", REL, "numbapkmerge", "the loop over 2D peaks")
    lp = lp[0]
    k = src(lp.target)
    # local names are free: every expression is read with uniquely-defined locals replaced by their definitions
    KEEP = tuple(a.arg for a in fn.args.args) + (k,)
    rnode = lambda n: pyfacts.merge_subscripts(pyfacts.resolved(fn, n, 4, keep=KEEP))      # row views ( sI = pks[1]; sI[k] ) read as pks[1, k]
    rs = lambda n: src(rnode(n)).replace(" ", "")
    JX = "labels[%s]" % k
    FRM = "pks[4,%s]" % k

    def rows(stmts):
        out = {}
        for s in stmts:
            tgt = rnode(s.target) if isinstance(s, ast.AugAssign) and isinstance(s.op, ast.Add) and isinstance(s.target, ast.Subscript) else None
            if tgt is not None and isinstance(tgt, ast.Subscript) and src(tgt.value) == "out":
                idx = tgt.slice
                if isinstance(idx, ast.Tuple) and len(idx.elts) == 2 and isinstance(idx.elts[0], ast.Constant):
                    R.check(rs(idx.elts[1]) == JX, "C15.R4", REL, s.lineno, "numbapkmerge", "row %s accumulates into column labels[%s]" % (idx.elts[0].value, k),
                            "a 2D peak is added to a merged peak other than the one its label names: %s" % rs(idx.elts[1]))
                    out[idx.elts[0].value] = rs(s.value)
        return out
    top = rows(lp.body)
    ifs = [s for s in lp.body if isinstance(s, ast.If) and "scale_factor is not None" in src(s.test) and any(isinstance(x, ast.AugAssign) for x in s.body)]
    R.shape(len(ifs) == 1, "C15.R4", REL, "numbapkmerge", "the scale_factor branch")
    sc, nosc = rows(ifs[0].body), rows(ifs[0].orelse)
    OM, DT, SCALE = "omega.flat[%s]" % FRM, "dty.flat[%s]" % FRM, "scale_factor.flat[%s]" % FRM
    want = {1: "pks[1,%s]" % k, 2: "pks[2,%s]" % k, 3: "pks[3,%s]" % k, 4: "%s*pks[1,%s]" % (OM, k), 5: "%s*pks[1,%s]" % (DT, k)}
    R.check(top == {0: "pks[0,%s]" % k, 6: "1"}, "C15.R4", REL, lp.lineno, "numbapkmerge", "rows 0 and 6: pixel count and number of 2D peaks %s" % top,
            "pixel count / member count are not plain sums over the members")
    R.check(nosc == want, "C15.R4", REL, ifs[0].lineno, "numbapkmerge", "unscaled rows 1..5 %s (frame = pks[4,k]; omega, dty looked up by frame)" % nosc,
            "an intensity-weighted sum uses the wrong column, or the per-frame omega / dty are not looked up by the peak's frame")
    R.check(sc == {r: v + "*" + SCALE for r, v in want.items()}, "C15.R4", REL, ifs[0].lineno, "numbapkmerge", "scaled rows 1..5 = unscaled * scale_factor.flat[frame]",
            "the scale-factor branch is not the other branch times the per-frame scale: %s" % sc)
    pm = m.func("pks_table.pk2dmerge")
    d = [n for n in ast.walk(pm) if isinstance(n, ast.Dict)]
    R.shape(len(d) == 1, "C15.R4", REL, "pks_table.pk2dmerge", "the output dictionary")
    got = {k_.value: pyfacts.resolved_src(pm, v, 3, keep=("out", "self", "omega", "dty")).replace(" ", "") for k_, v in zip(d[0].keys, d[0].values)}
    exp = {"s_raw": "out[2]/out[1]", "f_raw": "out[3]/out[1]", "omega": "out[4]/out[1]", "dty": "out[5]/out[1]", "Number_of_pixels": "out[0]",
           "sum_intensity": "out[1]", "npk2d": "out[6]", "spot3d_id": "np.arange(self.nlabel)"}
    for key, e in exp.items():
        R.check(got.get(key) == e, "C15.R4", REL, d[0].lineno, "pks_table.pk2dmerge", "%s = %s" % (key, got.get(key)), "merged-peak column %s is not %s" % (key, e))
    call = [c for c in ast.walk(pm) if isinstance(c, ast.Call) and pyfacts.dotted(c.func) == "numbapkmerge"]
    R.check(len(call) == 1 and [src(a) for a in call[0].args] == ["self.glabel", "self.pk_props", "omega", "dty", "out"] and
            any(kw.arg == "scale_factor" and src(kw.value) == "scale_factor" for kw in call[0].keywords), "C15.R4", REL, pm.lineno, "pks_table.pk2dmerge",
            "numbapkmerge(self.glabel, self.pk_props, omega, dty, out, scale_factor=scale_factor)", "arguments of the merge kernel changed")
    z = [a for a in ast.walk(pm) if isinstance(a, ast.Assign) and src(a.targets[0]) == "out"]
    R.check(len(z) == 1 and src(z[0].value).replace(" ", "").startswith("np.zeros((7,self.nlabel)"), "C15.R4", REL, pm.lineno, "pks_table.pk2dmerge", "out = zeros((7, nlabel))",
            "the accumulator does not start at zero with one column per merged peak")


def r6(R, m):
    """the per-2D-peak table (pks_table.pk2d / n_pk2d) and the merged table (pk2dmerge / numbapkmerge) describe the same peaks: a merged
    peak's position is the intensity weighted mean of its members' positions only if both kernels read the same per-peak quantities -
    s = srI/sI, f = scI/sI, omega and dty looked up by the peak's frame, with no further arithmetic on one side only."""
    R.rule("C15.R6", "n_pk2d (2D peak table): s_raw = srI/sI, f_raw = scI/sI, omega = omega.flat[frame], dty = dty.flat[frame] - the same "
                     "quantities numbapkmerge averages, nothing wrapped, scaled or offset on one side only")
    fn = m.func("n_pk2d")
    lp = [l for l in ast.walk(fn) if isinstance(l, ast.For)]
    R.shape(len(lp) == 1, "C15.R6", REL, "n_pk2d", "the loop over 2D peaks")
    k = src(lp[0].target)
    pn = [a.arg for a in fn.args.args]
    R.shape(len(pn) == 7, "C15.R6", REL, "n_pk2d", "the seven parameters s1, sI, srI, scI, frm, omega, dty")
    s1, sI, srI, scI, frm, om, dt = pn
    KEEP = tuple(pn) + (k,)
    rs = lambda n: src(pyfacts.resolved(fn, n, 4, keep=KEEP)).replace(" ", "")
    rets = [r for r in ast.walk(fn) if isinstance(r, ast.Return)]
    R.shape(len(rets) == 1 and isinstance(rets[0].value, ast.Tuple) and len(rets[0].value.elts) == 4, "C15.R6", REL, "n_pk2d", "return s_raw, f_raw, omega, dty")
    outs = [src(e) for e in rets[0].value.elts]
    want = {0: ("%s[%s]/%s[%s]" % (srI, k, sI, k), "slow centre srI/sI"), 1: ("%s[%s]/%s[%s]" % (scI, k, sI, k), "fast centre scI/sI"),
            2: ("%s.flat[%s[%s]]" % (om, frm, k), "omega of the peak's frame"), 3: ("%s.flat[%s[%s]]" % (dt, frm, k), "dty of the peak's frame")}
    for pos, name in enumerate(outs):
        st = [a for a in ast.walk(lp[0]) if isinstance(a, ast.Assign) and isinstance(a.targets[0], ast.Subscript) and src(a.targets[0].value) == name]
        R.shape(len(st) == 1 and src(st[0].targets[0].slice) == k, "C15.R6", REL, "n_pk2d", "one store %s[%s] = ... in the loop" % (name, k))
        got = rs(st[0].value)
        canon = lambda t: t.replace(".ravel()[", ".flat[").replace(".reshape(-1)[", ".flat[").replace("float(", "(")
        same = canon(got).strip("()") == want[pos][0]
        if not same:
            # positive evidence of a different quantity: arithmetic on top of (or instead of) the expected load / ratio
            gnode = pyfacts.resolved(fn, st[0].value, 4, keep=KEEP)
            extra = [x for x in ast.walk(gnode) if isinstance(x, ast.BinOp) and not (pos < 2 and isinstance(x.op, ast.Div))]
            R.shape(bool(extra), "C15.R6", REL, "n_pk2d", "the value stored into %s (%s) as %s" % (name, got, want[pos][0]))
        R.check(same, "C15.R6", REL, st[0].lineno, "n_pk2d", "%s[%s] = %s  (%s)" % (name, k, got, want[pos][1]),
                "the 2D peak table stores %s where the merge kernel averages %s: the merged peak is no longer the intensity weighted mean of the "
                "rows of the 2D table (e.g. an omega wrapped modulo 360 on one side differs by 360 for scans that start below 0 or span "
                "several turns)" % (got, want[pos][0]))
    # the caller passes the roles in this order
    pk = m.func("pks_table.pk2d")
    call = [c for c in ast.walk(pk) if isinstance(c, ast.Call) and pyfacts.dotted(c.func) == "n_pk2d"]
    R.shape(len(call) == 1, "C15.R6", REL, "pks_table.pk2d", "the n_pk2d call")
    args = [pyfacts.resolved_src(pk, a, 2, keep=("self", "omega", "dty")).replace(" ", "") for a in call[0].args]
    R.check(len(args) == 7 and args[5:] == ["omega", "dty"], "C15.R6", REL, call[0].lineno, "pks_table.pk2d", "n_pk2d(..., omega, dty) %s" % args[5:],
            "omega and dty reach the kernel in another order or transformed")


LISTED = {"numbalabelNd": "premises of the min-propagation argument are checked by C15.R1",
          "get_clean_labels": "own-cell writes under the j<0 guard are checked by C15.R3"}


def r5(R, m):
    R.rule("C15.R5", "prange discipline: inside a prange loop every array store is indexed by the loop variable (listed exceptions: the "
                     "two label kernels); accumulation into out[.., labels[k]] happens only in sequential loops")
    for k, v in LISTED.items():
        R.exception("C15.R5", k, v)
    nloops = 0
    for q, fn in m.funcs.items():
        for lp in ast.walk(fn):
            if not isinstance(lp, ast.For) or not is_prange(lp):
                continue
            if m.enclosing_function(lp) is not fn:
                continue
            nloops += 1
            iv = src(lp.target)
            bad = []
            for s in ast.walk(lp):
                t = None
                if isinstance(s, ast.Assign) and isinstance(s.targets[0], ast.Subscript):
                    t = s.targets[0]
                elif isinstance(s, ast.AugAssign) and isinstance(s.target, ast.Subscript):
                    t = s.target
                if t is None:
                    continue
                idx = t.slice
                elts = idx.elts if isinstance(idx, ast.Tuple) else [idx]
                own = any(src(e) == iv for e in elts)
                if not own:
                    bad.append(s)
            name = q.split(".")[-1]
            if name in LISTED:
                R.inst("C15.R5", "%s prange over %s: %d non-own-index stores (listed: %s)" % (q, iv, len(bad), LISTED[name]))
                continue
            R.check(not bad, "C15.R5", REL, lp.lineno, q, "prange over %s: all array stores at index %s" % (iv, iv),
                    "under prange the store '%s' goes to a data-dependent cell: two iterations can update the same cell and one update is lost "
                    "(numba only turns scalar '+=' into reductions)" % (src(bad[0])[:70] if bad else ""))
        # a function compiled with parallel=True but looping with range over a scatter-add is fine; the reverse is what R5 looks for
    if nloops < 2:
        R.fail("C15.R5 found %d prange loops in properties.py, expected at least 2" % nloops)
    # the merge kernel must stay sequential
    fn = m.func("numbapkmerge")
    lp = [l for l in ast.walk(fn) if isinstance(l, ast.For)]
    R.check(lp and not any(is_prange(l) for l in lp), "C15.R5", REL, fn.lineno, "numbapkmerge", "scatter-add loop is a sequential range()",
            "the scatter-add into out[:, labels[k]] runs under prange: members of one merged peak handled by different threads lose updates")


# --------------------------------------------------------------------------------------------------
def r7(R, m):
    """'no edges' is one of the graphs of the property: a scan whose 2D peaks never overlap gives a pair table of shape (3, 0).
    pks_table.create allocates every table through shared_numpy_array, and multiprocessing.shared_memory.SharedMemory refuses
    size 0 (ValueError) - the table cannot even be made, let alone labelled."""
    R.rule("C15.R7", "the peak / pair tables can be empty: every SharedMemory(create=True, size=...) asks for at least one byte")
    # premise: a table whose shape depends on the number of pairs
    cr = m.func("pks_table.create")
    shares = [c for c in ast.walk(cr) if isinstance(c, ast.Call) and pyfacts.dotted(c.func) == "self.share" and any(k.arg == "shape" for k in c.keywords)]
    R.shape(len(shares) >= 2, "C15.R7", REL, "pks_table.create", "the tables allocated with self.share(name, shape=..., dtype=...)")
    datadep = [c for c in shares for k in c.keywords if k.arg == "shape" and isinstance(k.value, ast.Tuple) and any(not isinstance(e, ast.Constant) for e in k.value.elts)]
    R.shape(len(datadep) >= 1, "C15.R7", REL, "pks_table.create", "a table whose shape comes from the numbers of peaks / pairs")
    calls = [c for c in ast.walk(m.tree) if isinstance(c, ast.Call) and (pyfacts.dotted(c.func) or "").split(".")[-1] == "SharedMemory"
             and any(k.arg == "create" and isinstance(k.value, ast.Constant) and k.value.value is True for k in c.keywords)]
    R.shape(len(calls) >= 1, "C15.R7", REL, "shared_numpy_array.__init__", "the SharedMemory(create=True, size=...) call")
    for c in calls:
        sz = [k.value for k in c.keywords if k.arg == "size"]
        R.shape(len(sz) == 1, "C15.R7", REL, "shared_numpy_array.__init__", "the size keyword of SharedMemory")
        e = sz[0]
        fn = m.enclosing_function(c)

        def positive(x):
            if isinstance(x, ast.Call) and pyfacts.dotted(x.func) == "max":
                return any((pyfacts.const_int(a) or 0) >= 1 for a in x.args)
            if isinstance(x, ast.Call) and pyfacts.dotted(x.func) == "int" and x.args:
                return positive(x.args[0])
            if isinstance(x, ast.BinOp) and isinstance(x.op, ast.Add):
                return any((pyfacts.const_int(a) or 0) >= 1 for a in (x.left, x.right))
            if isinstance(x, ast.BoolOp) and isinstance(x.op, ast.Or):
                return (pyfacts.const_int(x.values[-1]) or 0) >= 1
            c_ = pyfacts.const_int(x)
            return c_ is not None and c_ >= 1
        if positive(e):
            R.inst("C15.R7", "SharedMemory size %s is at least 1" % src(e))
            continue
        # is it the plain byte count of the array?
        rs = pyfacts.resolved_src(fn, e, 3, keep=("self",)) if fn is not None else src(e)
        if "nbytes" in rs or "prod" in rs or "itemsize" in rs:
            R.check(False, "C15.R7", REL, c.lineno, m.qualname(fn) if fn is not None else "<module>", "SharedMemory(create=True, size=%s)" % src(e),
                    "the size is the byte count of the array, which is 0 for the (3, 0) pair table of a scan without overlaps (pks_table.create "
                    "line %d): SharedMemory raises ValueError('size must be a positive number') and pks_table(npk=[(5, 0, 0)]) cannot be created - "
                    "the 'no edges' graph of the property never reaches the labelling" % datadep[0].lineno)
        else:
            R.shape(False, "C15.R7", REL, "shared_numpy_array.__init__", "a size expression that is a byte count or visibly at least 1 (%s)" % src(e))
    R.floor("C15.R7", 1)
