"""C02  g-vectors obey Bragg/Ewald laws and the diffraction geometry is invertible.

Proved for all inputs (polynomial identities with sin^2+cos^2=1, real arithmetic):
P1 |compute_g_from_k(k, omega, wedge, chi)|^2 == |k|^2 in transform.py and in the numba copy (so |g| does not
depend on omega, wedge, chi or the omega sign); P2 |compute_k_vectors(tth, eta, wvln)|^2 == (2 sin(tth/2)/wvln)^2;
P3 in C: gv.gv == k.k in compute_gv, out[2]^2 == out[3]^2+out[4]^2+out[5]^2 == k.k in compute_geometry and
k.k == (2/wvln^2)(1 - d0/|d|) (Bragg's law written with the scattered direction).
Structural: R4 every angle uncompute_g_vectors returns is multiplied by the validity mask and callers of
g_to_k bind the mask; R5 the mask bounds the arcsin argument on both sides.
Not decided: the two-solution inversion g -> (tth,eta,omega) -> g, the detector projection round trip,
"a change of omega rotates g rigidly" (needs angle addition).
"""
import ast

import numpy as np

from engine import cfront, pyfacts, vn, vn_c, vn_py
from engine.pyfacts import src
from engine.vn_py import sym

PID = "C02"
TR = "ImageD11/transform.py"
PBP = "ImageD11/sinograms/point_by_point.py"
GVG = "ImageD11/gv_general.py"
CD = "src/cdiffraction.c"


def run(R):
    R.level = "proof"
    R.trusted = ["CPython ast / clang-14 AST", "exact polynomial arithmetic with sin^2+cos^2=1 (engine/poly.py, engine/vn.py)",
                 "numpy object-array broadcasting"]
    R.assume("real arithmetic; wavelength != 0 and |d| != 0")
    if R.want("C02.R6"):
        # the forward maps that the inversion laws invert: both C kernels and the Python chain are one function
        # (same composition order of omega, chi, wedge; same grain-origin shift).  Shared with C01.R2 / C01.R4.
        from rules import c01
        mods = {"transform": pyfacts.module(R, c01.TR), "point_by_point": pyfacts.module(R, c01.PBP)}
        c01.r24(R, mods, r2n="C02.R6", r4n="C02.R6")
    if R.want("C02.P1") or R.want("C02.P2"):
        p12(R)
    if R.want("C02.P3"):
        p3(R)
    if R.want("C02.R4"):
        r4(R)
    if R.want("C02.R5"):
        r5(R)
    if R.want("C02.R7"):
        r7(R)
    if R.want("C02.R8"):
        r8(R)
    if R.want("C02.R9"):
        r9(R)


def col(name, n=3):
    return np.array([[sym("%s%d" % (name, i))] for i in range(n)], dtype=object)


def norm2(v):
    s = vn.const(0)
    for x in np.asarray(v, dtype=object).ravel():
        s = s + vn_py.R(x) * vn_py.R(x)
    return s


def p12(R):
    R.rule("C02.P1", "|compute_g_from_k(k, omega, wedge, chi)|^2 == |k|^2 for symbolic k, omega, wedge, chi (transform.py and numba copy; "
                     "also on the wedge=0 / chi=0 branches)")
    R.rule("C02.P2", "|compute_k_vectors(tth, eta, wvln)|^2 == (2 sin(tth/2)/wvln)^2 (transform.py and numba copy)")
    mods = {"transform": pyfacts.module(R, TR), "point_by_point": pyfacts.module(R, PBP)}
    k = col("k")
    om = np.array([sym("omega")], dtype=object)
    for modname, rel in (("transform", TR), ("point_by_point", PBP)):
        fn = mods[modname].func("compute_g_from_k")
        for label, wedge, chi in (("general", sym("wedge"), sym("chi")), ("wedge=0", 0.0, sym("chi")), ("chi=0", sym("wedge"), 0.0), ("both 0", 0.0, 0.0)):
            I = vn_py.Interp(mods)
            g = I.call(modname, "compute_g_from_k", k.copy(), om, wedge, chi)
            ok = vn.is_zero(norm2(g) - norm2(k))
            R.check(ok, "C02.P1", rel, fn.lineno, "%s.compute_g_from_k" % modname, "%s branch: |g|^2 - |k|^2 == 0" % label,
                    "the k -> g rotation is not norm preserving: |g| would depend on omega/wedge/chi (residual %s)" % vn_py._short(norm2(g) - norm2(k)))
        I = vn_py.Interp(mods)
        tth = np.array([sym("tth")], dtype=object)
        eta = np.array([sym("eta")], dtype=object)
        kk = I.call(modname, "compute_k_vectors", tth, eta, sym("wvln"))
        s = vn.app("sin", vn.radians(sym("tth")) / vn.const(2))
        want = (vn.const(2) * s / sym("wvln")) ** 2
        ok = vn.equal(norm2(kk), want)
        fn2 = mods[modname].func("compute_k_vectors")
        R.check(ok, "C02.P2", rel, fn2.lineno, "%s.compute_k_vectors" % modname, "|k|^2 == (2 sin(theta)/lambda)^2",
                "the scattering vector does not have the Bragg length 2 sin(theta)/lambda: |k|^2 = %s" % vn_py._short(norm2(kk)))
        # the full route: |compute_g_vectors|^2 == (2 sin(theta)/lambda)^2
        I = vn_py.Interp(mods)
        g = I.call(modname, "compute_g_vectors", tth, eta, om, sym("wvln"), sym("wedge"), sym("chi"))
        ok = vn.equal(norm2(g), want)
        R.check(ok, "C02.P1", rel, mods[modname].func("compute_g_vectors").lineno, "%s.compute_g_vectors" % modname, "|g|^2 == (2 sin(theta)/lambda)^2",
                "|g| is not 2 sin(theta)/lambda through compute_g_vectors")


def p3(R):
    R.rule("C02.P3", "C kernels: gv.gv == k.k (compute_gv); out[2]^2 == out[3]^2+out[4]^2+out[5]^2 == k.k (compute_geometry); "
                     "k.k == (2/wvln^2)(1 - d0/|d|)")
    tus = cfront.load(R.root, files=["cdiffraction.c"])
    for fname in ("compute_gv", "compute_geometry"):
        f = cfront.find_func(tus, fname, CD)
        sym_ = vn_c.CSym(f, tus, symbolic_loops={"i": "i"})
        paths = sym_.run()
        if len(paths) != 1:
            R.fail("%s: expected straight-line per-peak code, found %d paths" % (fname, len(paths)))
        st = paths[0]
        kv = [st.arr.get("k", {}).get((j,)) for j in range(3)]
        dv = [st.arr.get("d", {}).get((j,)) for j in range(3)]
        R.shape(all(x is not None for x in kv + dv), "C02.P3", CD, fname, "the local k[3] and d[3] vectors")
        kk = kv[0] * kv[0] + kv[1] * kv[1] + kv[2] * kv[2]
        outname = f.params[7].name
        cells = st.out.get(outname, {})
        if fname == "compute_gv":
            g = [cells.get(("i", j)) for j in range(3)]
        else:
            g = [cells.get(("i", j)) for j in (3, 4, 5)]
        R.shape(all(x is not None for x in g), "C02.P3", CD, fname, "the three g-vector outputs")
        gg = g[0] * g[0] + g[1] * g[1] + g[2] * g[2]
        R.check(vn.equal(gg, kk), "C02.P3", CD, f.line, fname, "g.g == k.k",
                "the rotation of k into the crystal frame does not preserve its length: |g| depends on omega/wedge/chi")
        dd = dv[0] * dv[0] + dv[1] * dv[1] + dv[2] * dv[2]
        wv = vn.atom(f.params[3].name)
        want = (vn.const(2) / (wv * wv)) * (vn.const(1) - dv[0] / vn.app("sqrt", dd))
        R.check(vn.equal(kk, want), "C02.P3", CD, f.line, fname, "k.k == (2/wvln^2)(1 - d0/|d|)  [= (2 sin(theta)/lambda)^2]",
                "k is not the difference of unit scattered and incident wave vectors over lambda: Bragg's law is violated")
        if fname == "compute_geometry":
            ds = cells.get(("i", 2))
            R.shape(ds is not None, "C02.P3", CD, fname, "the d-star output out[i][2]")
            R.check(vn.equal(ds * ds, gg), "C02.P3", CD, f.line, fname, "out[2]^2 == out[3]^2 + out[4]^2 + out[5]^2",
                    "the reported d-star is not the length of the reported g-vector")


def r4(R):
    R.rule("C02.R4", "uncompute_g_vectors multiplies every returned angle by the validity mask of g_to_k; every library caller of "
                     "gv_general.g_to_k binds the third result")
    m = pyfacts.module(R, TR)
    fn = m.func("uncompute_g_vectors")
    call = [a for a in ast.walk(fn) if isinstance(a, ast.Assign) and isinstance(a.value, ast.Call) and (pyfacts.dotted(a.value.func) or "").endswith("g_to_k")]
    R.shape(len(call) == 1 and isinstance(call[0].targets[0], ast.Tuple) and len(call[0].targets[0].elts) == 3, "C02.R4", TR, "uncompute_g_vectors",
            "the 3-tuple binding of g_to_k's result")
    vname = src(call[0].targets[0].elts[2])
    rets = [r for r in ast.walk(fn) if isinstance(r, ast.Return)]
    R.shape(len(rets) == 1, "C02.R4", TR, "uncompute_g_vectors", "the single return")
    names = [n.id for n in ast.walk(rets[0].value) if isinstance(n, ast.Name)]
    def masked(v, depth=4):
        """True: every angle in v is a product with the validity mask; False: some angle visibly is not; None: cannot tell"""
        if isinstance(v, ast.BinOp) and isinstance(v.op, ast.Mult) and vname in (src(v.left), src(v.right)):
            return True
        if isinstance(v, (ast.List, ast.Tuple)) and v.elts:
            rs = [masked(e, depth) for e in v.elts]
            return False if False in rs else (None if None in rs else True)
        if isinstance(v, (ast.ListComp, ast.GeneratorExp)):
            return masked(v.elt, depth)
        if isinstance(v, ast.Name) and depth > 0:
            ds = [a for a in ast.walk(fn) if isinstance(a, ast.Assign) and any(src(t) == v.id for t in a.targets)]
            if len(ds) >= 1:
                return masked(ds[-1].value, depth - 1)
            return None
        if isinstance(v, (ast.BinOp, ast.Call, ast.Subscript, ast.Attribute, ast.UnaryOp)):
            return False
        return None
    for nme in names:
        defs = [a for a in ast.walk(fn) if isinstance(a, ast.Assign) and any(src(t) == nme for t in a.targets)]
        last = defs[-1] if defs else None
        # the values that end up in the returned object: the last assignment, or what is appended to a list built in a loop
        produced = []
        if last is not None and not (isinstance(last.value, ast.List) and not last.value.elts):
            produced.append((last.value, last.lineno))
        for c in ast.walk(fn):
            if isinstance(c, ast.Call) and isinstance(c.func, ast.Attribute) and c.func.attr == "append" and src(c.func.value) == nme and c.args:
                produced.append((c.args[0], c.lineno))
        R.shape(bool(produced), "C02.R4", TR, "uncompute_g_vectors", "how the returned name '%s' is computed" % nme)
        for v, ln in produced:
            mk = masked(v)
            R.shape(mk is not None, "C02.R4", TR, "uncompute_g_vectors", "the expression returned as '%s' (%s)" % (nme, src(v)[:50]))
            R.check(mk, "C02.R4", TR, ln, "uncompute_g_vectors", "returned %s = ... * %s" % (nme, vname),
                    "an angle is returned without being multiplied by the validity mask: unreachable g-vectors are given angles")
    n = 0
    for rel in pyfacts.library_files(R.root, R.tier):
        mm = pyfacts.module(R, rel)
        if "g_to_k" not in mm.text:
            continue
        for c in ast.walk(mm.tree):
            if isinstance(c, ast.Call) and (pyfacts.dotted(c.func) or "").split(".")[-1] == "g_to_k":
                st = pyfacts.containing_stmt(c)
                n += 1
                ok = isinstance(st, ast.Assign) and isinstance(st.targets[0], ast.Tuple) and len(st.targets[0].elts) == 3 and st.value is c \
                    and not src(st.targets[0].elts[2]).startswith("_")
                fn2 = mm.enclosing_function(c)
                R.check(ok, "C02.R4", rel, c.lineno, mm.qualname(fn2) if fn2 else "<module>", "omega1, omega2, valid = g_to_k(...)",
                        "the validity mask returned by g_to_k is discarded")
                if ok and fn2 is not None and "sandbox" not in rel.split("/"):
                    # (the experimental scripts under sandbox/ are only required to take the mask, thorough tier; what they do with it
                    # is not a library route of the property)
                    v = src(st.targets[0].elts[2])
                    used = [x for x in ast.walk(fn2) if isinstance(x, ast.Name) and x.id == v and isinstance(x.ctx, ast.Load)]
                    R.check(bool(used), "C02.R4", rel, c.lineno, mm.qualname(fn2), "mask '%s' is used after the call" % v, "the validity mask is bound but never used")
    if n < 1:
        R.fail("C02.R4: no caller of g_to_k found in the library")


def r5(R):
    R.rule("C02.R5", "g_to_k: the argument of arcsin is gated by a mask that bounds it on BOTH sides (>= -1 and <= 1) and excludes a "
                     "vanishing denominator; the mask is what is returned as 'valid'")
    m = pyfacts.module(R, GVG)
    fn = m.func("g_to_k")
    asins = [c for c in ast.walk(fn) if isinstance(c, ast.Call) and (pyfacts.dotted(c.func) or "").split(".")[-1] in ("arcsin", "arccos")]
    R.shape(len(asins) >= 1, "C02.R5", GVG, "g_to_k", "the arcsin call")
    for c in asins:
        arg = c.args[0]
        R.shape(isinstance(arg, ast.Name), "C02.R5", GVG, "g_to_k", "a named argument of arcsin")
        defs = [a for a in ast.walk(fn) if isinstance(a, ast.Assign) and any(src(t) == arg.id for t in a.targets) and a.lineno < c.lineno]
        gate = [a for a in defs if isinstance(a.value, ast.Call) and (pyfacts.dotted(a.value.func) or "").split(".")[-1] == "where"]
        R.check(len(gate) == 1, "C02.R5", GVG, c.lineno, "g_to_k", "%s = np.where(mask, %s, 0) before arcsin" % (arg.id, arg.id),
                "the arcsin argument is not replaced by a safe value where the g-vector cannot diffract")
        if len(gate) != 1:
            continue
        mask = gate[0].value.args[0]
        R.shape(isinstance(mask, ast.Name), "C02.R5", GVG, "g_to_k", "a named mask in np.where")
        mdef = [a for a in ast.walk(fn) if isinstance(a, ast.Assign) and any(src(t) == mask.id for t in a.targets) and a.lineno <= gate[0].lineno]
        R.shape(len(mdef) == 1, "C02.R5", GVG, "g_to_k", "the single definition of the mask %s" % mask.id)
        # read through local names (in_range = (quot >= -1) & (quot <= 1); valid = ~msk & in_range), keeping the gated quantity's own name
        comps = [x for x in ast.walk(pyfacts.resolved(fn, mdef[0].value, 3, keep=(arg.id, src(gate[0].value.args[1]) if len(gate[0].value.args) >= 2 else arg.id)))
                 if isinstance(x, ast.Compare)]
        lower = upper = False
        gated = src(gate[0].value.args[1]) if len(gate[0].value.args) >= 2 else arg.id     # the quantity np.where lets through
        names_ok = (arg.id, gated)
        for x in comps:
            l, op, r = src(x.left), x.ops[0], src(x.comparators[0])
            if l in names_ok and isinstance(op, (ast.GtE, ast.Gt)) and r in ("-1", "-1.0"):
                lower = True
            if l in names_ok and isinstance(op, (ast.LtE, ast.Lt)) and r in ("1", "1.0"):
                upper = True
            if r in names_ok and isinstance(op, (ast.LtE, ast.Lt)) and l in ("-1", "-1.0"):
                lower = True
            if r in names_ok and isinstance(op, (ast.GtE, ast.Gt)) and l in ("1", "1.0"):
                upper = True
        R.check(lower and upper, "C02.R5", GVG, mdef[0].lineno, "g_to_k", "mask %s = %s" % (mask.id, src(mdef[0].value)),
                "the validity mask bounds the required sine only on one side: g-vectors that can never reach the Ewald sphere on the "
                "other side (%s) are flagged valid and given angles" % ("> 1" if lower else "< -1"))
        # conjunction, not disjunction
        R.check(not any(isinstance(x, ast.BinOp) and isinstance(x.op, ast.BitOr) for x in ast.walk(mdef[0].value)) and
                not any(isinstance(x, ast.BoolOp) and isinstance(x.op, ast.Or) for x in ast.walk(mdef[0].value)), "C02.R5", GVG, mdef[0].lineno, "g_to_k",
                "mask terms are combined with '&'", "the bounds are OR-ed")
        # zero denominator excluded
        R.check("~" in src(mdef[0].value) or "!= 0" in src(mdef[0].value) or "> 0" in src(mdef[0].value), "C02.R5", GVG, mdef[0].lineno, "g_to_k",
                "mask excludes den <= 0", "g parallel to the axis (zero denominator) is not excluded")
        rets = [r for r in ast.walk(fn) if isinstance(r, ast.Return)]
        R.check(len(rets) == 1 and isinstance(rets[0].value, ast.Tuple) and src(rets[0].value.elts[-1]) == mask.id, "C02.R5", GVG, fn.lineno, "g_to_k",
                "the mask is returned as the third result", "the returned validity is not the mask that gated arcsin")


def r7(R):
    R.rule("C02.R7", "compute_xyz_from_tth_eta (ray / detector-plane intersection): a projected position is replaced by the 'no intersection' "
                     "value only where the ray is parallel to the detector plane (divisor == 0); the sign of the divisor carries no "
                     "meaning (it flips with the handedness of the detector axes), so no other test of it may mask peaks")
    from rules import c01
    m = pyfacts.module(R, c01.TR)
    fn = m.nfunc("compute_xyz_from_tth_eta")
    params = tuple(a.arg for a in fn.args.args)
    divs = [d for d in ast.walk(fn) if isinstance(d, ast.BinOp) and isinstance(d.op, ast.Div) and isinstance(d.right, ast.Name)]
    R.shape(len(divs) >= 2 and len(set(d.right.id for d in divs)) == 1, "C02.R7", c01.TR, "compute_xyz_from_tth_eta", "the divisions by the ray . detector-normal product")
    N = divs[0].right.id
    # every selection that replaces a result, and every in-place patch of the divisor, is driven by a mask: find them
    uses = []
    for c in ast.walk(fn):
        if isinstance(c, ast.Call) and (pyfacts.dotted(c.func) or "").split(".")[-1] == "where" and len(c.args) == 3:
            uses.append((c, c.args[0]))
    for a_ in ast.walk(fn):
        if isinstance(a_, ast.AugAssign) and isinstance(a_.target, ast.Name) and a_.target.id == N:
            uses.append((a_, a_.value))
    R.shape(len(uses) >= 1, "C02.R7", c01.TR, "compute_xyz_from_tth_eta", "the mask that guards the division (np.where(mask, ...) / %s += mask)" % N)
    for node, mk in uses:
        d = pyfacts.resolved(fn, mk, 3, keep=params + (N,))
        cn = pyfacts.cmp_norm(d)
        okm = cn is not None and cn[0] == "Eq" and set(cn[1:]) in ({N, "0"}, {N, "0.0"}, {N, "0."})
        if not okm and isinstance(d, ast.Compare) and len(d.ops) == 1 and isinstance(d.ops[0], (ast.Lt, ast.LtE)):
            # |norm| < tiny  is an acceptable spelling of 'parallel'
            l_ = d.left
            okm = isinstance(l_, ast.Call) and (pyfacts.dotted(l_.func) or "").split(".")[-1] in ("abs", "fabs", "absolute") and src(l_.args[0]) == N \
                and isinstance(d.comparators[0], ast.Constant) and isinstance(d.comparators[0].value, float) and d.comparators[0].value < 1e-6
        R.check(okm, "C02.R7", c01.TR, node.lineno, "compute_xyz_from_tth_eta", "mask %s selects exactly %s == 0" % (src(d)[:50], N),
                "peaks are masked by a test of the divisor other than '== 0': for detector flips / pixel-size signs that reverse the "
                "computed normal every forward-scattered ray has a negative product and would be sent to pixel (0, 0), so the projection "
                "no longer inverts compute_tth_eta")


# --------------------------------------------------------------------------------------------------
def r8(R):
    """the detector -> (two-theta, eta) route subtracts the grain origin computed from (t_x, t_y, t_z) and omega; the 'no translation'
    shortcut that skips the subtraction is only the same function when ALL the components handed to compute_grain_origins are zero:
    every one of them must be compared with zero in the conjunction that guards the shortcut."""
    import ast
    from engine import pyfacts
    from engine.pyfacts import src
    R.rule("C02.R8", "compute_tth_eta_from_xyz (transform.py) and its numba copy: the shortcut that skips the grain-origin subtraction is guarded "
                     "by every translation component that compute_grain_origins receives being == 0")
    n = 0
    for rel in ("ImageD11/transform.py", "ImageD11/sinograms/point_by_point.py"):
        m = pyfacts.module(R, rel)
        for q, fn in sorted(m.funcs.items()):
            for st in ast.walk(fn):
                if not isinstance(st, ast.If):
                    continue
                go = [c for x in st.orelse + st.body for c in ast.walk(x) if isinstance(c, ast.Call) and (pyfacts.dotted(c.func) or "").split(".")[-1] == "compute_grain_origins"]
                direct = [c for c in go if pyfacts.containing_stmt(c) in st.orelse or pyfacts.containing_stmt(c) in st.body]
                if not direct:
                    continue
                in_else = pyfacts.containing_stmt(direct[0]) in st.orelse
                tvars = [a.id for a in direct[0].args[-3:] if isinstance(a, ast.Name)] + [k.value.id for k in direct[0].keywords if k.arg in ("t_x", "t_y", "t_z") and isinstance(k.value, ast.Name)]
                if len(tvars) != 3:
                    continue
                zero = set()
                nonzero = set()
                for c in ast.walk(st.test):
                    if isinstance(c, ast.Compare) and len(c.ops) == 1 and isinstance(c.left, ast.Name) and pyfacts.const_int(c.comparators[0]) == 0:
                        (zero if isinstance(c.ops[0], ast.Eq) else nonzero).add(c.left.id) if isinstance(c.ops[0], (ast.Eq, ast.NotEq)) else None
                    elif isinstance(c, ast.Compare) and len(c.ops) == 1 and isinstance(c.left, ast.Name) and isinstance(c.comparators[0], ast.Constant) \
                            and c.comparators[0].value == 0 and isinstance(c.ops[0], (ast.Eq, ast.NotEq)):
                        (zero if isinstance(c.ops[0], ast.Eq) else nonzero).add(c.left.id)
                tested = zero if in_else else nonzero
                if not (tested & set(tvars)):
                    continue          # the branch is about something else
                n += 1
                missing = [t for t in tvars if t not in tested]
                R.check(not missing, "C02.R8", rel, st.lineno, q, "shortcut test %s covers %s" % (src(st.test)[:70], tvars),
                        "the grain-origin subtraction is skipped although %s may be non-zero (it is not compared with zero in the guard): a grain "
                        "displaced only along that axis is treated as sitting at the origin, so two-theta / eta no longer invert the projection "
                        "that compute_xyz_from_tth_eta made with the same translation" % ", ".join(missing))
    R.shape(n >= 1, "C02.R8", "ImageD11/transform.py", "compute_tth_eta_from_xyz", "the translation shortcut in front of compute_grain_origins")
    R.floor("C02.R8", 1)


def r9(R):
    """the g-vector / k-vector routines take their batch of vectors in ONE documented layout.  A layout guessed from the shape
    ('if g.shape[1] == 3: g = g.T') cannot tell the two layouts apart for exactly three vectors, where both are (3, 3): that batch is
    silently transposed, the angles returned belong to other vectors and the laws (Bragg, invertibility) fail for n == 3 only."""
    import ast
    from engine import pyfacts
    R.rule("C02.R9", "transform.py / gv_general.py: no function chooses between the (3, n) and (n, 3) layouts of its vectors by testing a "
                     "shape entry against 3 and transposing (ambiguous for a batch of exactly three vectors)")
    n = 0
    for rel in ("ImageD11/transform.py", "ImageD11/gv_general.py"):
        m = pyfacts.module(R, rel)
        for q, fn in sorted(m.funcs.items()):
            n += 1
            for st, a in pyfacts.shape_sniffs(fn)[:1]:
                R.violation("C02.R9", rel, st.lineno, q, "if %s: %s is transposed" % (pyfacts.src(st.test)[:50], a),
                            "the layout of '%s' is guessed from its shape: three vectors make a (3, 3) array in both layouts, so a batch of "
                            "exactly three in the documented layout is transposed and the result describes other vectors" % a)
            R.inst("C02.R9", "%s:%s no layout guess" % (rel, q))
    R.floor("C02.R9", 20)
