"""C01  Pixel-to-g-vector geometry agrees across Python, C and numba implementations.

Decided, as equality of real-valued functions of ALL parameters (every flip o11..o22, omegasign, wedge and chi
together with a translation, ...), not 'to floating-point accuracy':
R1 call-site slot agreement of the three C kernels; R2 the two C kernels agree with each other; R3 the numba
clones in point_by_point.py equal the transform.py functions of the same name component by component;
R4 the whole fast route (Ctransform packing + compute_xlylzl + compute_geometry, symbolically executed) equals
the documented Python route (compute_xyz_lab, compute_tth_eta_from_xyz, compute_g_vectors) for xl,yl,zl, tth,
eta, gx,gy,gz and ds^2; R5 fast/slow branches of updateGeometry write the same columns from the same inputs;
R6 OpenMP discipline of the two parallel loops in cdiffraction.c.
Not decided: rounding differences, anything upstream (spatial distortion).
"""
import ast
import re

import numpy as np

from engine import cfront, omp, pyfacts, vn, vn_c, vn_py
from engine.pyfacts import src
from engine.vn_py import sym

PID = "C01"
TR = "ImageD11/transform.py"
PBP = "ImageD11/sinograms/point_by_point.py"
CF = "ImageD11/columnfile.py"
RG = "ImageD11/refinegrains.py"
CD = "src/cdiffraction.c"

PARS = ("y_center", "y_size", "tilt_y", "z_center", "z_size", "tilt_z", "tilt_x", "distance", "o11", "o12", "o21", "o22",
        "t_x", "t_y", "t_z", "wedge", "chi", "wavelength", "omegasign")

# formal (pyf / C) name -> accepted role names of the value passed
SYN = {"omegasign": {"omegasign", "sign"}, "wvln": {"wavelength", "wvln", "wavelength"}, "wedge": {"wedge"}, "chi": {"chi"},
       "t": {"translation", "t", "t_x"}, "p": {"cen"}, "r": {"rmat"}, "dist": {"distance_vec", "dist"},
       "omega": {"omega", "om"}}
VOCAB = set(x for v in SYN.values() for x in v) | {"tilt_x", "tilt_y", "tilt_z", "distance"}


def run(R):
    R.assume("real arithmetic where |d| != 0, wavelength != 0; generic branch of 'if chi != 0 / wedge != 0 / t != 0' tests")
    mods = {"transform": pyfacts.module(R, TR), "point_by_point": pyfacts.module(R, PBP)}
    if R.want("C01.R11"):      # write sets first: positive evidence that must be reported even when the value numbering cannot read a rewritten kernel
        r11(R)
    if R.want("C01.R6"):
        R.rule("C01.R6", "the two 'omp parallel for' loops of cdiffraction.c: scalars/arrays private, shared writes only at row i (E2)")
        tus = cfront.load(R.root, files=["cdiffraction.c"])
        omp.report(R, "C01.R6", tus, select=lambda f: f.file == CD, floor=2)
        from engine import definit
        for f in cfront.all_funcs(tus):
            if f.file != CD:
                continue
            an, reps = definit.analyse(f, tus)
            seen = set()
            for name, idx, line, what in reps:
                if (name, idx) in seen:
                    continue
                seen.add((name, idx))
                R.violation("C01.R6/E3", f.file, line, f.name, "%s%s" % (name, idx),
                            "local '%s' may be read before it is assigned in this iteration (private copies start undefined in every thread: a value "
                            "kept from the previous iteration is not there at the start of a thread's chunk)" % name)
            R.inst("C01.R6", "%s:%s definite initialisation of locals (%d reads)" % (f.file, f.name, an.n_reads), ok=not reps)
    if R.want("C01.R1"):
        r1(R)
    if R.want("C01.R2") or R.want("C01.R4"):
        r24(R, mods)
    if R.want("C01.R3"):
        r3(R, mods)
    if R.want("C01.R5"):
        r5(R)
    if R.want("C01.R7"):
        r7(R)
    if R.want("C01.R8"):
        r8(R)
    if R.want("C01.R9"):
        r9(R)
    if R.want("C01.R10"):
        r10(R)


# --------------------------------------------------------------------------------------------------
def role_of(mm, fn, e):
    """name of the parameter / quantity an argument expression carries"""
    if isinstance(e, ast.Subscript) and isinstance(e.slice, ast.Constant) and isinstance(e.slice.value, str):
        return e.slice.value
    if isinstance(e, ast.Call):
        d = pyfacts.dotted(e.func) or ""
        if d.split(".")[-1] == "get" and e.args and isinstance(e.args[0], ast.Constant):
            return e.args[0].value
        if d.split(".")[-1] in ("float", "array", "asarray") and e.args:
            return role_of(mm, fn, e.args[0])
        return None
    if isinstance(e, ast.Attribute):
        return e.attr
    if isinstance(e, ast.Name):
        defs = [a for a in ast.walk(fn) if isinstance(a, ast.Assign) and len(a.targets) == 1 and src(a.targets[0]) == e.id] if fn is not None else []
        if len(defs) == 1:
            r = role_of(mm, None, defs[0].value) if not isinstance(defs[0].value, ast.Name) else None
            if r is not None:
                return r
        return e.id
    if isinstance(e, (ast.Tuple, ast.List)) and e.elts:
        return role_of(mm, fn, e.elts[0])
    return None


def r1(R):
    R.rule("C01.R1", "at every library call of compute_gv / compute_geometry / compute_xlylzl the quantity passed in each slot is the "
                     "one the .pyf formal of that position names (omegasign, wvln, wedge, chi, t; p, r, dist)")
    from engine import iface
    fns, order = iface.crack(R.path("src/_cImageD11.pyf"))
    nsites = 0
    for rel in pyfacts.library_files(R.root, R.tier):
        mm = pyfacts.module(R, rel)
        if "compute_gv" not in mm.text and "compute_geometry" not in mm.text and "compute_xlylzl" not in mm.text:
            continue
        for name, c in pyfacts.kernel_calls(mm.tree, names=("compute_gv", "compute_geometry", "compute_xlylzl")):
            if name not in fns:
                R.fail("routine %s missing from the .pyf" % name)
            blk = fns[name]
            formals = [a for a in blk["args"] if "hide" not in (blk["vars"][a].get("intent") or [])]
            fn = mm.enclosing_function(c)
            qual = mm.qualname(fn) if fn else "<module>"
            nsites += 1
            R.check(len(c.args) == len(formals) and not c.keywords, "C01.R1", rel, c.lineno, qual, "%s called with %d positional arguments (interface has %d)" % (name, len(c.args), len(formals)),
                    "argument count differs from the interface")
            for formal, a in zip(formals, c.args):
                if formal not in SYN:
                    continue
                role = role_of(mm, fn, a)
                known = role in VOCAB
                ok = (not known) or role in SYN[formal]
                R.check(ok, "C01.R1", rel, c.lineno, qual, "%s(... %s=%s [%s])" % (name, formal, src(a), role),
                        "the value of '%s' is passed in the slot of '%s': the kernel computes with swapped parameters (invisible whenever "
                        "one of them is zero)" % (role, formal), desc="%s:%s %s slot %s <- %s" % (rel, qual, name, formal, role))
    if nsites < 5:
        R.fail("C01.R1 found %d kernel call sites, expected at least 5" % nsites)


# --------------------------------------------------------------------------------------------------
def general_policy(c, m, e):
    return vn_py.default_policy(c, m, e)


def xyz_atoms():
    return [sym("xl"), sym("yl"), sym("zl")]


def python_xyz(mods):
    I = vn_py.Interp(mods)
    p = {k: sym(k) for k in PARS}
    sc = np.array([sym("sc")], dtype=object)
    fc = np.array([sym("fc")], dtype=object)
    xyz = I.call("transform", "compute_xyz_lab", (sc, fc), **p)
    return [xyz[j, 0] for j in range(3)]


def python_from_xyz(mods, with_t):
    """reference formulas downstream of the lab coordinates, for one generic peak with lab position (xl,yl,zl)"""
    I = vn_py.Interp(mods)
    p = {k: sym(k) for k in PARS}
    if not with_t:
        p["t_x"] = p["t_y"] = p["t_z"] = 0.0
    xyz = np.array([[a] for a in xyz_atoms()], dtype=object)
    omega = np.array([sym("omega")], dtype=object)
    om = omega * p["omegasign"]
    out = {}
    if with_t:
        go = I.call("transform", "compute_grain_origins", om, wedge=p["wedge"], chi=p["chi"], t_x=p["t_x"], t_y=p["t_y"], t_z=p["t_z"])
        out["d"] = [xyz[j, 0] - go[j, 0] for j in range(3)]
        return out
    tth, eta = I.call("transform", "compute_tth_eta_from_xyz", xyz, om, **p)
    g = I.call("transform", "compute_g_vectors", tth, eta, om, wvln=p["wavelength"], wedge=p["wedge"], chi=p["chi"])
    out.update(tth=tth[0], eta=eta[0], g=[g[j, 0] for j in range(3)])
    return out


def c_xyz(R, mods, tus):
    """Ctransform.reset packing (interpreted) -> compute_xlylzl (symbolically executed)"""
    I = vn_py.Interp(mods)
    m = mods["transform"]
    pars = {k: sym(k) for k in PARS}
    ct = I.instantiate(m, m.cls("Ctransform"), [pars], {})
    cen, rmat, dvec = ct._attrs["cen"], ct._attrs["rmat"], ct._attrs["distance_vec"]
    fx = cfront.find_func(tus, "compute_xlylzl", CD)
    pn = [p.name for p in fx.params]
    inputs = {pn[0]: lambda idx: sym("sc"), pn[1]: lambda idx: sym("fc"),
              pn[2]: lambda idx: vn_py.R(cen[idx[0]]), pn[3]: lambda idx: vn_py.R(rmat[idx[0]]), pn[4]: lambda idx: vn_py.R(dvec[idx[0]])}
    sx = vn_c.CSym(fx, tus, symbolic_loops={"i": "i"}, inputs=inputs)
    px = sx.run()
    if len(px) != 1:
        R.fail("compute_xlylzl: expected one path, got %d" % len(px))
    xyz = [px[0].out[pn[5]].get(("i", j)) for j in range(3)]
    if any(x is None for x in xyz):
        R.fail("compute_xlylzl does not write xlylzl[i][0..2]")
    return xyz


def c_from_xyz(R, tus, fname, with_t, all_paths=False):
    f = cfront.find_func(tus, fname, CD)
    qn = [p.name for p in f.params]
    xyz = xyz_atoms()
    t = [sym("t_x"), sym("t_y"), sym("t_z")] if with_t else [vn.const(0)] * 3
    inp = {qn[0]: lambda idx: xyz[idx[1]], qn[1]: lambda idx: sym("omega"), qn[2]: sym("omegasign"), qn[3]: sym("wavelength"),
           qn[4]: sym("wedge"), qn[5]: sym("chi"), qn[6]: lambda idx: t[idx[0]]}
    sg = vn_c.CSym(f, tus, symbolic_loops={"i": "i"}, inputs=inp)
    pg = sg.run()
    if len(pg) < 1 or len(pg) > 8:
        R.fail("%s: expected a handful of paths, got %d" % (fname, len(pg)))
    if all_paths:
        out = []
        for st in pg:
            d = [st.arr.get("d", {}).get((j,)) for j in range(3)]
            out.append((path_equalities(st), st.out[qn[7]], d, [c[4] + ("" if c[3] else " is false") for c in st.conds]))
        return f, out
    if len(pg) != 1:
        R.fail("%s: expected one path, got %d" % (fname, len(pg)))
    st = pg[0]
    d = [st.arr.get("d", {}).get((j,)) for j in range(3)]
    return f, st.out[qn[7]], d


def path_equalities(st):
    """equalities  <input atom> == <constant>  that hold on a path (from branch conditions a != c false / a == c true, through
    false disjunctions and true conjunctions) -> substitution for the reference expressions"""
    eqs = {}

    def walk(c, pol):
        op = c[0]
        if op == "or" and not pol:
            walk(c[1], False)
            walk(c[2], False)
        elif op == "and" and pol:
            walk(c[1], True)
            walk(c[2], True)
        elif op == "not":
            walk(c[1], not pol)
        elif (op == "!=" and not pol) or (op == "==" and pol):
            a, b = c[1], c[2]
            for x, y in ((a, b), (b, a)):
                if y.is_const():
                    r = vn.normalise(x)
                    if r.d.is_const() and r.d.const_value() == 1 and len(r.n.t) == 1:
                        (mono, coef), = r.n.t.items()
                        if coef == 1 and len(mono) == 1 and mono[0][1] == 1 and isinstance(mono[0][0], str):
                            eqs[mono[0][0]] = y
    for rec in st.conds:
        walk(rec[:3], rec[3])
    return eqs


def d_is_the_only_link(f):
    """after d[] is computed no later statement of the per-peak body reads xlylzl, t, u or o: outputs depend on the peak position and
    the grain translation only through d"""
    loops = [s for s in cfront.swalk(f.body) if s.k == "for"]
    body = loops[-1].body if loops else None
    if body is None or body.k != "block":
        return None
    seen_d = False
    assigned = set()
    pn = [p.name for p in f.params]
    banned = {pn[0], pn[6], "u", "o"}
    bad = []
    for s in body.body:
        # a top-level statement with everything nested in it (an if / else that forms d on both branches counts as one)
        tops = [e for st in cfront.swalk(s) for e in cfront.stmt_exprs(st)]
        exprs = [x for e in tops for x in cfront.ewalk(e)]
        if seen_d:
            for x in exprs:
                if x.k == "var" and x.name in banned:
                    bad.append((x.name, x.line))
        for x in exprs:
            if x.k == "asg" and cfront.estr(x.a[0]).startswith("d["):
                assigned.add(cfront.estr(x.a[0]))
        if len(assigned) >= 3:
            seen_d = True
    return bad if seen_d else None


def r24(R, mods, r2n="C01.R2", r4n="C01.R4"):
    R.rule(r2n, "compute_geometry's g-vector columns equal compute_gv's output (for a generic peak, translation, wedge, chi, sign)")
    R.rule(r4n, "fast route == Python reference, stage by stage and for every parameter: (i) Ctransform packing + compute_xlylzl == "
                     "compute_xyz_lab; (ii) d = xyz - origin(t, omega*sign, wedge, chi) == xyz - compute_grain_origins; (iii-v) tth, eta, "
                     "gx,gy,gz, ds^2 as functions of d (atan2 / half-angle rewriting); outputs depend on (xyz, t) only through d")
    tus = cfront.load(R.root, files=["cdiffraction.c"])
    # ---- R2 (with translation); a kernel may special-case translations (paths): each path is compared under its own condition
    fgeo, geo_paths = c_from_xyz(R, tus, "compute_geometry", True, all_paths=True)
    fgv, gv_paths = c_from_xyz(R, tus, "compute_gv", True, all_paths=True)
    for eq1, geo_t, d_geo, why1 in geo_paths:
        for eq2, gv_t, d_gv, why2 in gv_paths:
            if any(k in eq2 and not vn.equal(eq1[k], eq2[k]) for k in eq1):
                continue
            eq = dict(eq1)
            eq.update(eq2)
            for j in range(3):
                a, b = geo_t.get(("i", 3 + j)), gv_t.get(("i", j))
                ok = a is not None and b is not None and vn.equal(vn.subst_deep(a, eq) if eq else a, vn.subst_deep(b, eq) if eq else b)
                R.check(ok, r2n, CD, fgeo.line, "compute_geometry", "out[i][%d] == compute_gv gv[i][%d]%s" % (
                    3 + j, j, (" on the path %s" % (why1 + why2)) if (why1 or why2) else ""),
                        "the two C kernels compute different g-vectors from the same inputs%s" % (
                            (" when " + " and ".join("%s == %s" % (k, vn_py._short(v)) for k, v in sorted(eq.items()))) if eq else ""))
    # ---- (i)
    names = ("xl", "yl", "zl")
    pyx = python_xyz(mods)
    cx = c_xyz(R, mods, tus)
    for j in range(3):
        ok = vn.equal(cx[j], vn_py.R(pyx[j]))
        R.check(ok, r4n, TR, mods["transform"].func("Ctransform.reset").lineno, "Ctransform.reset + compute_xlylzl", "(i) %s(fast) == compute_xyz_lab[%d]" % (names[j], j),
                "the packed detector matrix / centre / distance handed to C does not reproduce transform.compute_xyz_lab: %s differs (e.g. an "
                "off-diagonal flip or a tilt enters differently)" % names[j])
    # ---- (ii)
    pyd = python_from_xyz(mods, True)["d"]
    for f, paths in ((fgeo, geo_paths), (fgv, gv_paths)):
        for eq, outp, d, why in paths:
            R.shape(all(x is not None for x in d), r4n, CD, f.name, "the difference vector d[3]")
            for j in range(3):
                ref = vn_py.R(pyd[j])
                ok = vn.equal(vn.subst_deep(d[j], eq) if eq else d[j], vn.subst_deep(ref, eq) if eq else ref)
                R.check(ok, r4n, CD, f.line, f.name, "(ii) d[%d] == xyz[%d] - compute_grain_origins(omega*sign, wedge, chi, t)[%d]%s" % (
                    j, j, j, (" on the path %s" % why) if why else ""),
                        "the grain-origin shift (translation rotated by omega*sign, chi, wedge) differs from transform.compute_grain_origins in "
                        "component %d%s - shows only for a non-zero translation together with the rotations" % (
                            j, (" when " + " and ".join("%s == %s" % (k, vn_py._short(v)) for k, v in sorted(eq.items()))) if eq else ""))
        bad = d_is_the_only_link(f)
        R.shape(bad is not None, r4n, CD, f.name, "the per-peak loop body with the d[] assignments")
        R.check(not bad, r4n, CD, f.line, f.name, "outputs depend on position/translation only through d", "%s is read again after d was formed: %s" % (
            bad[0][0] if bad else "", bad[:2]))
    # ---- (iii)-(v) : as functions of d (translation zero => d == xyz atoms)
    fgeo0, geo, d0 = c_from_xyz(R, tus, "compute_geometry", False)
    for j, a in enumerate(xyz_atoms()):
        if not vn.equal(d0[j], a):
            R.fail("C01.R4/C02.R6: with zero translation d[%d] is not the lab coordinate" % j)
    py = python_from_xyz(mods, False)
    R.check(vn.equal(geo.get(("i", 0)), vn_py.R(py["tth"])), r4n, CD, fgeo.line, "compute_geometry", "(iv) tth(fast) == compute_tth_eta_from_xyz tth",
            "two-theta differs between the C kernel and the Python reference")
    R.check(vn.equal(geo.get(("i", 1)), vn_py.R(py["eta"])), r4n, CD, fgeo.line, "compute_geometry", "(iv) eta(fast) == compute_tth_eta_from_xyz eta",
            "eta differs between the C kernel and the Python reference")
    pyg = [vn.expand_trig_of_atan2(vn_py.R(x)) for x in py["g"]]
    for j, nm in enumerate(("gx", "gy", "gz")):
        ok = vn.equal(pyg[j], geo.get(("i", 3 + j)))
        R.check(ok, r4n, CD, fgeo.line, "compute_geometry", "(iii,v) %s(fast) == compute_g_vectors[%d] (atan2/half-angle rewriting)" % (nm, j),
                "the g-vector component %s of the fast route differs from the documented Python formulas for some parameter combination" % nm)
    ds = geo.get(("i", 2))
    gg = pyg[0] * pyg[0] + pyg[1] * pyg[1] + pyg[2] * pyg[2]
    R.check(vn.equal(ds * ds, gg), r4n, CD, fgeo.line, "compute_geometry", "ds(fast)^2 == gx^2+gy^2+gz^2 of the Python route", "d-star differs")
    # plumbing of the stages on the Python side
    tf = mods["transform"].func("compute_tth_eta_from_xyz")
    u = ast.unparse(tf)
    R.check("s1 = peaks_xyz - compute_grain_origins(omega, wedge, chi, t_x, t_y, t_z)" in u, r4n, TR, tf.lineno, "compute_tth_eta_from_xyz",
            "s1 = peaks_xyz - compute_grain_origins(omega, wedge, chi, t_x, t_y, t_z)", "the reference no longer subtracts the grain origin this way")


# --------------------------------------------------------------------------------------------------
CLONES = {
    "detector_rotation_matrix": ("tilt_x", "tilt_y", "tilt_z"),
    "compute_grain_origins": ("omega*", "wedge", "chi", "t_x", "t_y", "t_z"),
    "compute_k_vectors": ("tth*", "eta*", "wvln"),
    "compute_g_from_k": ("k#", "omega*", "wedge", "chi"),
    "compute_g_vectors": ("tth*", "eta*", "omega*", "wvln", "wedge", "chi"),
}


def mk(spec):
    if spec.endswith("*"):
        return np.array([sym(spec[:-1])], dtype=object)
    if spec.endswith("#"):
        return np.array([[sym("%s%d" % (spec[:-1], i))] for i in range(3)], dtype=object)
    return sym(spec)


def r3(R, mods):
    R.rule("C01.R3", "numba clones in point_by_point.py == transform.py functions of the same name, output component by component; "
                     "compute_gve passes every keyword to the same-named formal")
    pb = mods["point_by_point"]
    for fname, spec in CLONES.items():
        I = vn_py.Interp(mods)
        a = I.call("transform", fname, *[mk(s) for s in spec])
        b = I.call("point_by_point", fname, *[mk(s) for s in spec])
        ok, why = vn_py.same(a, b)
        R.check(ok, "C01.R3", PBP, pb.func(fname).lineno, fname, "point_by_point.%s == transform.%s" % (fname, fname),
                "the numba copy differs from the reference formula: " + why[:300])
    # xyz and tth/eta (different signatures: peaks tuple vs sc, fc)
    I = vn_py.Interp(mods)
    p = {k: sym(k) for k in PARS if k not in ("wavelength", "omegasign", "t_x", "t_y", "t_z", "wedge", "chi")}
    sc, fc = mk("sc*"), mk("fc*")
    a = I.call("transform", "compute_xyz_lab", (sc, fc), **p)
    b = I.call("point_by_point", "compute_xyz_lab", sc, fc, **p)
    ok, why = vn_py.same(a, b)
    R.check(ok, "C01.R3", PBP, pb.func("compute_xyz_lab").lineno, "compute_xyz_lab", "point_by_point.compute_xyz_lab == transform.compute_xyz_lab", why[:300])
    xyz = np.array([[sym("x%d" % i)] for i in range(3)], dtype=object)
    om = mk("omega*")
    # every on/off combination of the grain translation: a component that is switched off is the constant 0 (so that shortcuts such
    # as 'if t_x == 0 and t_y == 0 and t_z == 0' are taken exactly when they apply), the others are generic symbols
    import itertools as _it
    for zero in _it.chain.from_iterable(_it.combinations(("t_x", "t_y", "t_z"), n_) for n_ in range(4)):
        q = {k: (0.0 if k in zero else sym(k)) for k in ("t_x", "t_y", "t_z")}
        q.update({k: sym(k) for k in ("wedge", "chi")})
        I = vn_py.Interp(mods)
        a = I.call("transform", "compute_tth_eta_from_xyz", xyz, om, **q)
        b = I.call("point_by_point", "compute_tth_eta_from_xyz", xyz, om, **q)
        ok, why = vn_py.same(a, b)
        R.check(ok, "C01.R3", PBP, pb.func("compute_tth_eta_from_xyz").lineno, "compute_tth_eta_from_xyz",
                "point_by_point == transform (tth, eta) with %s" % (("%s = 0" % ", ".join(zero)) if zero else "a general translation"), why[:300])
    I = vn_py.Interp(mods)
    q = {k: sym(k) for k in ("t_x", "t_y", "t_z", "wedge", "chi")}
    # compute_gve: keyword pass-through
    fn = pb.func("compute_gve")
    LISTED = {"distance": "this_distance"}
    R.exception("C01.R3", "compute_gve(distance=this_distance)", "the sample-detector distance is corrected by the voxel's x position on purpose")
    for c in [x for st in fn.body for x in ast.walk(st)]:
        if isinstance(c, ast.Call):
            for kw in c.keywords:
                if kw.arg is None:
                    continue
                want = LISTED.get(kw.arg, kw.arg)
                R.check(src(kw.value) == want, "C01.R3", PBP, c.lineno, "compute_gve", "%s(%s=%s)" % (src(c.func), kw.arg, src(kw.value)),
                        "parameter '%s' receives the value of '%s'" % (kw.arg, src(kw.value)))
    # and numerically as a whole: compute_gve == reference chain
    allp = {k: sym(k) for k in PARS if k != "omegasign"}
    gve = I.call("point_by_point", "compute_gve", sc, fc, om, sym("xpos"), allp["distance"], allp["y_center"], allp["y_size"], allp["tilt_y"],
                 allp["z_center"], allp["z_size"], allp["tilt_z"], allp["tilt_x"], allp["o11"], allp["o12"], allp["o21"], allp["o22"],
                 allp["t_x"], allp["t_y"], allp["t_z"], allp["wedge"], allp["chi"], allp["wavelength"])
    p2 = dict(p)
    p2["distance"] = allp["distance"] - sym("xpos")
    xyz2 = I.call("transform", "compute_xyz_lab", (sc, fc), **p2)
    tth, eta = I.call("transform", "compute_tth_eta_from_xyz", xyz2, om, **q)
    gref = I.call("transform", "compute_g_vectors", tth, eta, om, allp["wavelength"], allp["wedge"], allp["chi"])
    ok, why = vn_py.same(gve, gref)
    R.check(ok, "C01.R3", PBP, fn.lineno, "compute_gve", "compute_gve == transform reference chain with distance - xpos", why[:300])


# --------------------------------------------------------------------------------------------------
def r5(R):
    R.rule("C01.R5", "columnfile.updateGeometry: both branches add exactly {xl,yl,zl,tth,eta,ds,gx,gy,gz}; both take the translation "
                     "from 'translation' else t_x,t_y,t_z; the slow branch multiplies omega by omegasign before every use")
    m = pyfacts.module(R, CF)
    fn = m.func("columnfile.updateGeometry")
    parts = pyfacts.if_else_parts(fn, "fast")
    R.shape(parts is not None and parts[2], "C01.R5", CF, "columnfile.updateGeometry", "the 'if fast:' split (if / else, or 'if fast: ...; return' followed by the slow route)")

    class _Split(object):          # the two routes, whichever way the split is spelt
        pass
    top = [_Split()]
    top[0].body, top[0].orelse, top[0].lineno = parts[1], parts[2], parts[0].lineno
    want = {"xl", "yl", "zl", "tth", "eta", "ds", "gx", "gy", "gz"}

    def cols(stmts):
        out = set()
        for s in stmts:
            for c in ast.walk(s):
                if isinstance(c, ast.Call) and pyfacts.dotted(c.func) == "self.addcolumn" and len(c.args) >= 2:
                    a = c.args[1]
                    if isinstance(a, ast.Constant):
                        out.add(a.value)
                    elif isinstance(a, ast.Name):
                        # name bound by an enclosing for over a tuple of constants
                        loop = c
                        while loop is not None and not isinstance(loop, ast.For):
                            loop = getattr(loop, "_parent", None)
                        if loop is not None:
                            for t in ast.walk(loop.iter):
                                if isinstance(t, ast.Constant) and isinstance(t.value, str):
                                    out.add(t.value)
        return out
    fast_cols, slow_cols = cols(top[0].body), cols(top[0].orelse)
    R.check(fast_cols == want, "C01.R5", CF, top[0].lineno, "columnfile.updateGeometry", "fast branch columns %s" % sorted(fast_cols), "fast route writes %s" % sorted(fast_cols ^ want))
    R.check(slow_cols == want, "C01.R5", CF, top[0].lineno, "columnfile.updateGeometry", "slow branch columns %s" % sorted(slow_cols), "slow route writes %s" % sorted(slow_cols ^ want))
    # column order of the fast branch matches compute_geometry's output layout
    # read on the unrolled form: addcolumn(<array>[:, K], '<name>') per array, names ordered by K (a loop over a literal tuple of
    # names and the statements written out are the same thing)
    fastmod = pyfacts.unroll_literal_loops(ast.Module(body=pyfacts.clone(top[0].body), type_ignores=[]))
    bycol = {}
    for c_ in ast.walk(fastmod):
        if isinstance(c_, ast.Call) and pyfacts.dotted(c_.func) == "self.addcolumn" and len(c_.args) >= 2 and isinstance(c_.args[1], ast.Constant) \
                and isinstance(c_.args[0], ast.Subscript) and isinstance(c_.args[0].slice, ast.Tuple) and len(c_.args[0].slice.elts) == 2:
            k_ = pyfacts.const_int(c_.args[0].slice.elts[1])
            if k_ is not None:
                bycol.setdefault(src(c_.args[0].value), {})[k_] = c_.args[1].value
    orders = [tuple(d_[k_] for k_ in sorted(d_)) for d_ in bycol.values()]
    R.check(("xl", "yl", "zl") in orders and ("tth", "eta", "ds", "gx", "gy", "gz") in orders, "C01.R5", CF, top[0].lineno, "columnfile.updateGeometry",
            "fast branch column order %s" % orders, "out[:, i] columns are attached to the wrong names (compute_geometry writes tth, eta, ds, gx, gy, gz)")
    fu = pyfacts.closure_src(m, list(top[0].body))
    R.check("tx, ty, tz = translation" in fu and "pars.get('t_x')" in fu and "pars.get('t_y')" in fu and "pars.get('t_z')" in fu, "C01.R5", CF, top[0].lineno,
            "columnfile.updateGeometry", "fast: translation else t_x,t_y,t_z", "fast route takes the grain position from somewhere else")
    su = pyfacts.closure_src(m, list(top[0].orelse))
    R.check("pars['t_x'] = translation[0]" in su and "pars['t_y'] = translation[1]" in su and "pars['t_z'] = translation[2]" in su, "C01.R5", CF, top[0].lineno,
            "columnfile.updateGeometry", "slow: translation overrides t_x,t_y,t_z", "slow route takes the grain position from somewhere else")
    # omegasign in the slow branch
    om = [a for s in top[0].orelse for a in ast.walk(s) if isinstance(a, ast.Assign) and src(a.targets[0]) == "om"]
    R.check(len(om) == 1 and "self.omega" in src(om[0].value) and "omegasign" in src(om[0].value) and isinstance(om[0].value, ast.BinOp) and isinstance(om[0].value.op, ast.Mult),
            "C01.R5", CF, top[0].lineno, "columnfile.updateGeometry", "om = self.omega * omegasign", "the slow route ignores the omega sign")
    uses = [c for s in top[0].orelse for c in ast.walk(s) if isinstance(c, ast.Call) and (pyfacts.dotted(c.func) or "").startswith("transform.compute_")
            and (pyfacts.dotted(c.func) or "").split(".")[-1] in ("compute_tth_eta_from_xyz", "compute_g_vectors")]
    for c in uses:
        args = [src(a) for a in c.args] + [src(k.value) for k in c.keywords]
        R.check("om" in args and "self.omega" not in " ".join(args), "C01.R5", CF, c.lineno, "columnfile.updateGeometry", "%s(..., om, ...)" % src(c.func),
                "the unsigned omega column is used on the slow route: the two routes differ for omegasign = -1")
    # the fast route passes omegasign through Ctransform.pars (R1 checks the slot)
    R.check("transform.Ctransform(pars.parameters)" in fu.replace(" ", "").replace("(pars", "(pars") or "transform.Ctransform(pars.parameters)" in fu, "C01.R5", CF, top[0].lineno,
            "columnfile.updateGeometry", "fast: Ctransform(pars.parameters)", "fast route is not built from the same parameter set")
    rg_compute_gv(R, "C01.R5")


def r7(R):
    """the fast route of columnfile.updateGeometry / updateGV evaluates the geometry with a transform.Ctransform object, which copies
    the 16 geometry parameters when it is constructed.  The parameters object of a columnfile is mutable in place
    (parameters.set / loadparameters / parameters.parameters[...] = ...), so the Ctransform whose sf2xyz / sf2gv is called must have
    been constructed from pars.parameters in this call: a Ctransform that survives from an earlier call is accepted only when the
    conditions on that path compare parameter *values*."""
    R.rule("C01.R7", "columnfile.updateGeometry / updateGV (fast): the Ctransform whose sf2xyz / sf2gv is called is constructed from "
                     "pars.parameters on every path of this call (the parameters object is mutable in place; a Ctransform kept from an "
                     "earlier call holds a snapshot of old values)")
    m = pyfacts.module(R, CF)
    n = 0
    for q in ("columnfile.updateGeometry", "columnfile.updateGV"):
        fn = m.ifunc(q, depth=2)
        cfg = pyfacts.PyCFG(fn)
        calls = [c for c in ast.walk(fn) if isinstance(c, ast.Call) and isinstance(c.func, ast.Attribute) and c.func.attr in ("sf2xyz", "sf2gv", "xyz2gv", "xyz2geometry")]
        for c in calls:
            n += 1
            at = cfg.node_of(pyfacts.containing_stmt(c))
            R.shape(at is not None, "C01.R7", CF, q, "the statement calling %s" % src(c.func))
            work = [(src(c.func.value), at, [])]
            done = 0
            verdicts = []
            while work and done < 200:
                done += 1
                target, node, guards = work.pop()
                for v, g in cfg.reaching(node, target):
                    gs = guards + g
                    if v is None:
                        verdicts.append(("entry", target, gs))
                    elif v == "unknown":
                        verdicts.append(("unknown", target, gs))
                    elif isinstance(v, ast.Call) and (pyfacts.dotted(v.func) or "").split(".")[-1] == "Ctransform":
                        verdicts.append(("built", v, gs))
                    elif isinstance(v, (ast.Name, ast.Attribute)):
                        # a copy: follow it from the statement that made the copy
                        st = [x for x in cfg.nodes if x.k == "stmt" and isinstance(x.node, ast.Assign) and x.node.value is v]
                        if st:
                            work.append((src(v), st[0], gs))
                        else:
                            verdicts.append(("unknown", target, gs))
                    elif isinstance(v, ast.IfExp):
                        verdicts.append(("unknown", target, gs))
                    else:
                        verdicts.append(("unknown", target, gs))
            for kind, what, gs in verdicts:
                if kind == "built":
                    a0 = what.args[0] if what.args else None
                    ok = a0 is not None and src(a0).replace(" ", "") in ("pars.parameters", "self.parameters.parameters")
                    R.check(ok, "C01.R7", CF, what.lineno, q, "%s for %s" % (src(what), src(c.func)),
                            "the compiled transform is not built from the parameter values of this columnfile")
                elif kind == "entry":
                    # value-reading conditions: a comparison (== / !=) one side of which reads .parameters / .get( of the parameter object
                    def reads_values(t):
                        for x in ast.walk(t):
                            if isinstance(x, ast.Compare) and any(isinstance(o, (ast.Eq, ast.NotEq)) for o in x.ops) and \
                                    (".parameters" in src(x) or ".get(" in src(x)):
                                return True
                        return False
                    valued = [t for t, pol in gs if reads_values(t)]
                    if valued:
                        R.shape(False, "C01.R7", CF, q, "a Ctransform kept across calls under a comparison of parameter values (%s): whether "
                                "that comparison covers every geometry parameter is not decided here" % src(valued[0])[:80])
                    R.check(False, "C01.R7", CF, c.lineno, q, "%s: %s comes from an earlier call when %s" % (
                        src(c.func), what, " and ".join(("%s" if pol else "not (%s)") % src(t) for t, pol in gs if what.split(".")[-1] in src(t) or "pars" in src(t)) or "(no condition)"),
                        "the fast route reuses a Ctransform constructed in an earlier call; no condition on that path compares parameter values, "
                        "and the parameters object is changed in place by parameters.set / loadparameters: after such a change the fast route "
                        "computes xl..gz with the old geometry while the slow route uses the new one")
                else:
                    R.shape(False, "C01.R7", CF, q, "where the object %s (receiver of %s) is constructed" % (what, src(c.func)))
    R.shape(n >= 3, "C01.R7", CF, "columnfile.updateGeometry", "calls of Ctransform.sf2xyz / sf2gv on the fast route")
    R.floor("C01.R7", 3)


def r8(R):
    """the reference formulas are floating-point formulas.  An array made with np.array(arg) / np.asarray(arg) / arg.copy() without a
    dtype has the dtype of what the caller passed; storing (x - centre) * pixelsize into it in place converts the result back to
    that dtype, so integer pixel coordinates (np.mgrid, as transform.PixelLUT passes them) are truncated to whole micrometres while the
    compiled route converts its input to double first."""
    R.rule("C01.R8", "transform.py: an array that receives arithmetic results through in-place stores (A[...] = expr) and was made from an "
                     "argument is made with a float dtype (np.array(arg, float) ...), so integer input is not truncated")
    m = pyfacts.module(R, TR)
    n = 0
    for q, fn in sorted(m.funcs.items()):
        params = set(a.arg for a in fn.args.args)
        made = {}
        for a in ast.walk(fn):
            if isinstance(a, ast.Assign) and len(a.targets) == 1 and isinstance(a.targets[0], ast.Name) and isinstance(a.value, ast.Call):
                d = pyfacts.dotted(a.value.func) or ""
                v = a.value
                from_arg = v.args and any(isinstance(x, ast.Name) and x.id in params for x in ast.walk(v.args[0]))
                if d.split(".")[-1] in ("array", "asarray", "asanyarray", "ascontiguousarray") and d.split(".")[0] in ("np", "numpy", "n") and from_arg:
                    typed = len(v.args) >= 2 or any(k.arg == "dtype" for k in v.keywords)
                    made[a.targets[0].id] = (a, typed)
                elif isinstance(v.func, ast.Attribute) and v.func.attr == "copy" and isinstance(v.func.value, ast.Name) and v.func.value.id in params:
                    made[a.targets[0].id] = (a, False)
        for name, (a, typed) in made.items():
            stores = [st for st in ast.walk(fn) if isinstance(st, ast.Assign) and isinstance(st.targets[0], ast.Subscript)
                      and isinstance(st.targets[0].value, ast.Name) and st.targets[0].value.id == name and st.lineno > a.lineno
                      and any(isinstance(x, ast.BinOp) and isinstance(x.op, (ast.Mult, ast.Div, ast.Sub, ast.Add)) for x in ast.walk(st.value))]
            stores += [st for st in ast.walk(fn) if isinstance(st, ast.AugAssign) and isinstance(st.target, (ast.Subscript, ast.Name))
                       and src(st.target).split("[")[0] == name and st.lineno > a.lineno]
            if not stores:
                continue
            n += 1
            R.check(typed, "C01.R8", TR, a.lineno, q, "%s, then %s" % (src(a)[:50], src(stores[0])[:60]),
                    "'%s' takes the dtype of the argument and arithmetic results are stored into it in place: for integer pixel coordinates "
                    "(np.mgrid - this is how PixelLUT calls it) (position - centre) * pixel size is truncated to an integer, up to one unit "
                    "(micrometre) away from what the compiled route and the formula give" % name)
    R.shape(n >= 1, "C01.R8", TR, "compute_xyz_lab", "an array made from an argument and updated in place")
    R.floor("C01.R8", 1)


def r9(R):
    """refinegrains keeps the lab coordinates of each grain's peaks (grain.peaks_xyz) and recomputes them inside gof() only when
    fit() decided that a varied parameter can move them.  That decision has to agree with what compute_xyz_lab depends on (its own
    parameter list): a detector parameter the decision forgets leaves stale xl, yl, zl next to g-vectors computed with the current
    values, and the routes disagree."""
    R.rule("C01.R9", "refinegrains.fit: the lab coordinates are recomputed whenever a varied parameter is one that transform.compute_xyz_lab "
                     "takes (the 'recompute' test covers every name in its signature)")
    mt = pyfacts.module(R, TR)
    sig = [a.arg for a in mt.func("compute_xyz_lab").args.args[1:]]
    R.shape(len(sig) >= 10, "C01.R9", TR, "compute_xyz_lab", "the detector parameters in the signature")
    mr = pyfacts.module(R, RG)
    fn = mr.func("refinegrains.fit")
    sets = [a for a in ast.walk(fn) if isinstance(a, ast.Assign) and src(a.targets[0]) == "self.recompute_xlylzl" and isinstance(a.value, ast.Constant) and a.value.value is True]
    # the same decision as an expression:  self.recompute_xlylzl = any(<n in / not in [...]> for n in names)
    anys = [a for a in ast.walk(fn) if isinstance(a, ast.Assign) and src(a.targets[0]) == "self.recompute_xlylzl" and isinstance(a.value, ast.Call)
            and pyfacts.dotted(a.value.func) == "any" and len(a.value.args) == 1 and isinstance(a.value.args[0], (ast.GeneratorExp, ast.ListComp))
            and isinstance(a.value.args[0].elt, ast.Compare) and len(a.value.args[0].elt.ops) == 1 and isinstance(a.value.args[0].elt.ops[0], (ast.In, ast.NotIn))]
    R.shape(len(sets) + len(anys) >= 1, "C01.R9", RG, "refinegrains.fit", "the statement self.recompute_xlylzl = True")
    cfg = pyfacts.PyCFG(fn)
    n = 0
    for a in sets + anys:
        gs = cfg.guards(cfg.node_of(a))
        tests = [(t, pol) for t, pol in gs if isinstance(t, ast.Compare) and len(t.ops) == 1 and isinstance(t.ops[0], (ast.In, ast.NotIn))]
        if a in anys:
            tests = tests + [(a.value.args[0].elt, True)]
        if not tests:
            n += 1
            R.inst("C01.R9", "%s:refinegrains.fit recompute set unconditionally" % RG)
            continue
        t, pol = tests[-1]
        lst = pyfacts.resolved(fn, t.comparators[0], 3, keep=("self",))
        R.shape(isinstance(lst, (ast.List, ast.Tuple, ast.Set)) and all(isinstance(e, ast.Constant) for e in lst.elts), "C01.R9", RG, "refinegrains.fit",
                "the list of names in '%s'" % src(t)[:60])
        names = set(e.value for e in lst.elts)
        is_in = isinstance(t.ops[0], ast.In) == pol          # True: recompute when the name IS in the list
        n += 1
        if is_in:
            missing = [p_ for p_ in sig if p_ not in names]
            R.check(not missing, "C01.R9", RG, a.lineno, "refinegrains.fit", "recompute when the varied name is in %s" % sorted(names),
                    "%s are parameters of compute_xyz_lab but not in the list: when only such a parameter is varied gof() keeps the xl, yl, zl "
                    "computed with its starting value while everything else uses the current one - the fit cannot see the parameter and the "
                    "g-vectors differ from the reference / compiled route" % missing)
        else:
            wrong = [p_ for p_ in sig if p_ in names]
            R.check(not wrong, "C01.R9", RG, a.lineno, "refinegrains.fit", "recompute unless the varied name is in %s" % sorted(names),
                    "%s are parameters of compute_xyz_lab but are exempted from the recomputation" % wrong)
    R.floor("C01.R9", 1)


def rg_compute_gv(R, rule):
    """refinegrains.compute_gv (shared with C09): omega * sign at every use; wavelength, wedge, chi reach every transform call"""
    mr = pyfacts.module(R, RG)
    g = mr.ifunc("refinegrains.compute_gv")       # same-file helpers (an extracted 'float the omegas' method) read in place
    for c in ast.walk(g):
        if isinstance(c, ast.Call) and (pyfacts.dotted(c.func) or "").startswith("transform."):
            nm = (pyfacts.dotted(c.func) or "").split(".")[-1]
            args = [pyfacts.resolved_src(g, a) for a in c.args] + ["%s=%s" % (k.arg, pyfacts.resolved_src(g, k.value)) for k in c.keywords]
            txt = " ".join(args)
            if nm in ("compute_g_vectors", "uncompute_g_vectors"):
                roles = [role_of(mr, g, a) for a in c.args]
                R.check("wavelength" in roles and "wedge" in roles and "chi" in roles, rule, RG, c.lineno, "refinegrains.compute_gv",
                        "%s receives wavelength, wedge and chi (%s)" % (nm, roles),
                        "a goniometer parameter is not passed and silently takes its default 0: wrong for wedge != 0 / chi != 0")
                if "wavelength" in roles and "wedge" in roles and "chi" in roles:
                    R.check(roles.index("wavelength") < roles.index("wedge") < roles.index("chi"), rule, RG, c.lineno, "refinegrains.compute_gv",
                            "%s argument order wavelength, wedge, chi" % nm, "wedge and chi are swapped")
            if nm in ("compute_tth_eta_from_xyz", "compute_g_vectors"):
                txt_ = txt.replace(" ", "")
                R.check("om*sign" in txt_ or "sign*om" in txt_ or "omega_calc" in txt_ or "self." in "".join(t_ for t_ in re.findall(r"self\._\w+\(", txt_)), rule, RG, c.lineno, "refinegrains.compute_gv", "%s uses om*sign (or the fitted omega)" % nm,
                        "the omega sign is dropped on this call")


# --------------------------------------------------------------------------------------------------
def c_written_params(f, summaries):
    """names of the pointer parameters of C function f that f may store through: direct stores A[..] = / *A = / A[..]++, stores through a
    local pointer that was assigned an address inside the parameter (d = A[i]; d[0] = ...), the destination of memcpy / memmove /
    memset, and arguments handed to a callee in a position the callee writes (summaries: name -> set of parameter positions)."""
    from engine.cfront import all_exprs, base_var
    params = {p.name for p in f.params if p.ty and ("*" in p.ty or "[" in p.ty)}
    alias = {}

    def roots(e):
        b = base_var(e)
        if b is None and e is not None and e.k == "un" and e.op == "&":
            b = base_var(e.a[0])
        if b is None:
            return set()
        if b.name in params:
            return {b.name}
        return set(alias.get(b.name, ()))
    written = set()
    for _ in range(4):                                   # aliases of aliases
        for st, x in all_exprs(f.body):
            if x.k == "asg" and x.op == "=" and x.a[0].k == "var" and x.a[0].ty and "*" in x.a[0].ty:
                r = roots(x.a[1])
                if r:
                    alias.setdefault(x.a[0].name, set()).update(r)
    for st, x in all_exprs(f.body):
        if x.k in ("asg", "incdec") and x.a[0].k != "var":
            written |= roots(x.a[0])
        if x.k == "call":
            pos = summaries.get(x.name)
            if pos is None and x.name in ("memcpy", "memmove", "memset"):
                pos = {0}
            for j, a in enumerate(x.a):
                if pos is not None and j in pos:
                    written |= roots(a)
    return written


def r11(R):
    """The lab-coordinate array is computed once per parameter set and handed to the g-vector kernels again for every grain
    (refinegrains.assignlabels, Ctransform.xyz2gv then xyz2geometry): a kernel that stores into it - through a row pointer
    d = xlylzl[i] handed to an in-place helper - shifts the caller's coordinates by the first grain's origin, and every later grain
    and every later call gets g-vectors of the wrong positions.  Write sets are computed with file-local helpers read in place."""
    import os
    from engine import iface
    R.rule("C01.R11", "the geometry kernels of cdiffraction.c store only into the arrays their .pyf block declares intent(out/inout): the "
                      "pixel / lab-coordinate / omega / translation inputs are never written (not directly, not through a local row pointer "
                      "or an in-place helper)")
    tus = cfront.load(R.root, files=["cdiffraction.c"])
    fns, order = iface.crack(R.path("src/_cImageD11.pyf"))
    raw = {g.name: g for g in cfront.all_funcs(tus)}
    summaries = {}
    for _ in range(3):
        for name, g in raw.items():
            if g.body is None:
                continue
            w = c_written_params(g, summaries)
            summaries[name] = {k for k, p_ in enumerate(g.params) if p_.name in w}
    n = 0
    for name in sorted(raw):
        blk = fns.get(name)
        if blk is None or raw[name].file != "src/cdiffraction.c":
            continue
        f = cfront.find_func(tus, name, "src/cdiffraction.c")
        w = c_written_params(f, summaries)
        for k, prm in enumerate(f.params):
            v = blk["vars"].get(blk["args"][k]) if k < len(blk["args"]) else None
            if v is None or "dimension" not in v:
                continue
            n += 1
            intents = set(v.get("intent", []))
            isout = bool(intents & {"out", "inout", "inplace"})
            R.check(isout or prm.name not in w, "C01.R11", "src/cdiffraction.c", f.line if hasattr(f, "line") else 1, name,
                    "%s(%s): pyf intent %s, %s by the C code" % (name, prm.name, sorted(intents), "written" if prm.name in w else "not written"),
                    "the kernel stores into its input array '%s' (declared %s in the .pyf): the caller's array - the lab coordinates that "
                    "are reused for the next grain / the next call - is modified, so the same call repeated, or the next grain, computes "
                    "g-vectors from shifted positions and the fast route no longer equals the Python formulas" % (prm.name, sorted(intents)))
    R.floor("C01.R11", 8)


# --------------------------------------------------------------------------------------------------
def r10(R):
    """The numba chain compute_gve(sc, fc, omega, ...) has no omegasign argument: like the reference chain below compute_tth_eta /
    compute_g_vectors it takes the SIGNED rotation angle.  The compiled route of the same file (get_local_gv -> cImageD11.compute_gv)
    receives the parameter 'omegasign' and signs the angle itself, and so does columnfile.updateGeometry.  So every caller of
    compute_gve has to hand over omega * omegasign; a caller that no omegasign can reach gives, for omegasign = -1, g-vectors that
    differ from those of the compiled and the reference route for the same peaks."""
    R.rule("C01.R10", "point_by_point.py: every call of the numba compute_gve receives the omega column multiplied by the 'omegasign' parameter "
                      "(or signed by its caller), as the compiled route get_local_gv -> cImageD11.compute_gv applies it")
    m = pyfacts.module(R, PBP)
    gve = m.func("compute_gve")
    formals = [a.arg for a in gve.args.args]
    R.shape("omega" in formals, "C01.R10", PBP, "compute_gve", "the formal 'omega'")
    if any("sign" in a for a in formals):
        R.shape(False, "C01.R10", PBP, "compute_gve", "a compute_gve without a sign argument (it now takes one: the rule has to compare its use with the reference)")
    opos = formals.index("omega")

    def has_sign_const(e):
        return any(isinstance(x, ast.Constant) and x.value == "omegasign" for x in ast.walk(e))

    def funcs():
        for n_ in ast.walk(m.tree):
            if isinstance(n_, ast.FunctionDef):
                yield n_

    def calls_in(fn, name):
        out = []
        for x in ast.walk(fn):
            if isinstance(x, ast.Call) and ((isinstance(x.func, ast.Name) and x.func.id == name) or (isinstance(x.func, ast.Attribute) and x.func.attr == name)):
                out.append(x)
        return out

    def arg_of(call, pos, name):
        for kw in call.keywords:
            if kw.arg == name:
                return kw.value
        if pos < len(call.args) and not any(isinstance(a, ast.Starred) for a in call.args[:pos + 1]):
            return call.args[pos]
        return None

    def signed_formals(F):
        """formals of F that receive, at every call site in the module, an expression built from the parameter 'omegasign'"""
        fa = [a.arg for a in F.args.args] + [a.arg for a in F.args.kwonlyargs]
        sites = [(G, c) for G in funcs() if G is not F for c in calls_in(G, F.name)]
        out = set()
        for i, a in enumerate(fa):
            if not sites:
                break
            good = True
            for G, c in sites:
                v = arg_of(c, i, a)
                if v is None or not has_sign_const(pyfacts.resolved(G, v, 4)):
                    good = False
            if good:
                out.add(a)
        return out, sites

    def names_of(e):
        return set(y.id for y in ast.walk(e) if isinstance(y, ast.Name))

    for F in funcs():
        if F.name == "compute_gve":
            continue
        calls = [c for c in calls_in(F, "compute_gve") if m.enclosing_function(c) is F]
        if not calls:
            continue
        sf, sites = signed_formals(F)
        for c in calls:
            v = arg_of(c, opos, "omega")
            R.shape(v is not None, "C01.R10", PBP, F.name, "the omega argument of the compute_gve call at line %d" % c.lineno)
            rv = pyfacts.resolved(F, v, 4, keep=tuple(sf))
            signed = has_sign_const(rv) or any(isinstance(x, ast.BinOp) and isinstance(x.op, ast.Mult) and
                                               ((names_of(x.left) | names_of(x.right)) & sf) for x in ast.walk(rv))
            # can a sign reach the argument at all?  closure of the names it is computed from, over every assignment of F
            clo, rhs_seen, grew = set(names_of(v)), [], True
            while grew:
                grew = False
                for st in ast.walk(F):
                    if isinstance(st, (ast.Assign, ast.AugAssign, ast.AnnAssign)) and getattr(st, "value", None) is not None:
                        tg = st.targets if isinstance(st, ast.Assign) else [st.target]
                        tn = set()
                        for t_ in tg:
                            tn |= names_of(t_)
                        if tn & clo and st not in rhs_seen:
                            rhs_seen.append(st)
                            new_names = names_of(st.value) - clo
                            if new_names:
                                clo |= new_names
                            grew = True
            reach = bool(clo & sf) or any(has_sign_const(st.value) for st in rhs_seen) or has_sign_const(v)
            desc = "%s: compute_gve(omega=%s)" % (F.name, src(v))
            if signed:
                R.inst("C01.R10", desc + " signed (%s)" % src(rv)[:80])
            elif not reach:
                R.check(False, "C01.R10", PBP, c.lineno, F.name, "compute_gve(omega=%s)" % src(v),
                            "no 'omegasign' reaches this argument in %s (it is computed from %s; formals fed from the parameters' omegasign at the call "
                            "site%s: %s): the numba route computes g-vectors from the unsigned omega column while get_local_gv hands omegasign to "
                            "cImageD11.compute_gv - for omegasign = -1 the refinement stage and the indexing stage disagree about every g-vector"
                            % (F.name, ", ".join(sorted(clo & set(a.arg for a in F.args.args))) or "no formal", "s" if len(sites) != 1 else "", sorted(sf) or "none"))
            else:
                R.shape(False, "C01.R10", PBP, F.name, "how omegasign reaches the omega argument '%s' of compute_gve (line %d)" % (src(v), c.lineno))
    R.floor("C01.R10", 2)
