"""C17  Columnfile stays rectangular and self-consistent under any operation sequence.

Decided (necessary conditions that hold for every history because they hold for every method):
R1 every method that rebinds the column storage re-synchronises the per-title attributes on every path to a
normal exit; R2 row operations apply one loop-invariant selector to every column; R3 length gates before
storing; R4 copy / copyrows build fresh arrays; R5 chkarray runs before storage is read by
writefile/filter/copy/copyrows.
Not decided: numpy's argsort/masking semantics, start states loaded from HDF beyond what addcolumn builds.
"""
import ast

from engine import pyfacts
from engine.pyfacts import src

PID = "C17"
REL = "ImageD11/columnfile.py"
CLS = "columnfile"
DATA = "_columnfile__data"     # name-mangled spelling is what ast shows as self.__data


def is_self_data(n):
    return isinstance(n, ast.Attribute) and isinstance(n.value, ast.Name) and n.value.id == "self" and n.attr == "__data"


def run(R):
    m = pyfacts.module(R, REL)
    cls = m.cls(CLS)
    methods = {n.name: n for n in cls.body if isinstance(n, ast.FunctionDef)}
    if R.want("C17.R1"):
        r1(R, m, methods)
    if R.want("C17.R2"):
        r2(R, m, methods)
    if R.want("C17.R3"):
        r3(R, m, methods)
    if R.want("C17.R4"):
        r4(R, m, methods)
    if R.want("C17.R5"):
        r5(R, m, methods)
    if R.want("C17.R6"):
        r6(R, m, methods)
    if R.want("C17.R7"):
        r7(R, m, methods)
    if R.want("C17.R8"):
        r8(R, m, methods)
    if R.want("C17.R9"):
        r9(R, m, methods)


# --------------------------------------------------------------------------------------------------
def data_writes(fn):
    """statements that rebind self.__data, or a slot of it (self.__data[i] = x / .append / .insert)"""
    out = []
    for n in ast.walk(fn):
        if isinstance(n, ast.Assign):
            for t in n.targets:
                if is_self_data(t):
                    out.append((n, "rebind self.__data"))
                elif isinstance(t, ast.Subscript) and is_self_data(t.value):
                    out.append((n, "rebind slot self.__data[%s]" % src(t.slice)))
        elif isinstance(n, ast.AugAssign) and (is_self_data(n.target) or (isinstance(n.target, ast.Subscript) and is_self_data(n.target.value))):
            out.append((n, "augmented store to self.__data"))
        elif isinstance(n, ast.Expr) and isinstance(n.value, ast.Call) and isinstance(n.value.func, ast.Attribute) \
                and n.value.func.attr in ("append", "insert", "extend", "pop", "remove") and is_self_data(n.value.func.value):
            out.append((n, "self.__data.%s" % n.value.func.attr))
    return out


def is_resync(stmt):
    """statement that makes attributes and storage agree again"""
    for c in ast.walk(stmt):
        if isinstance(c, ast.Call):
            d = pyfacts.dotted(c.func)
            if d == "self.set_attributes":
                return "set_attributes()"
            if d == "setattr" and len(c.args) == 3 and src(c.args[0]) == "self" and "self.__data[" in src(c.args[2]):
                return "setattr(self, name, self.__data[idx])"
            if isinstance(c.func, ast.Attribute) and c.func.attr == "__setattr__" and isinstance(c.func.value, ast.Call) \
                    and pyfacts.dotted(c.func.value.func) == "super":
                return "super().__setattr__"
            if d in ("self.set_bigarray",):
                return "set_bigarray()"
    if isinstance(stmt, ast.Assign) and any(isinstance(t, ast.Attribute) and src(t) == "self.bigarray" for t in stmt.targets):
        return "self.bigarray = ... (property setter resyncs)"
    return None


EXEMPT = {"__init__": "constructs an empty object: no titles yet, nothing to synchronise",
          "chkarray": "is the resynchronisation in the other direction (storage := attributes)"}


def r1(R, m, methods):
    R.rule("C17.R1", "every columnfile method that rebinds self.__data (or one of its slots) is followed, on every path to a "
                     "normal exit, by a re-synchronisation of the per-title attributes")
    for k, v in EXEMPT.items():
        R.exception("C17.R1", "columnfile.%s" % k, v)
    # the re-synchronisation itself: on every path through set_attributes every title gets setattr(self, title, <its column>) -
    # no early exit for special tables (an emptied table must lose its old full-length attribute arrays too)
    sa = m.nfunc("%s.set_attributes" % CLS) if "set_attributes" in methods else None
    if sa is None:
        R.fail("columnfile.set_attributes vanished")
    scfg = pyfacts.PyCFG(sa)
    setloops = [l for l in ast.walk(sa) if isinstance(l, ast.For) and "self.titles" in src(l.iter)
                and any(isinstance(c, ast.Call) and src(c.func) == "setattr" and len(c.args) == 3 and src(c.args[0]) == "self" for c in ast.walk(l))]
    R.shape(len(setloops) == 1, "C17.R1", REL, "columnfile.set_attributes", "the loop over self.titles that calls setattr(self, title, column)")
    R.check(scfg.postdominates(scfg.node_of(setloops[0]), scfg.entry), "C17.R1", REL, setloops[0].lineno, "columnfile.set_attributes",
            "every path through set_attributes re-points every attribute",
            "set_attributes returns early on some path: after a row operation whose result takes that path (e.g. an empty table) the "
            "attributes keep pointing at the old columns, and chkarray() later copies them back into the storage")
    call = [c for c in ast.walk(setloops[0]) if isinstance(c, ast.Call) and src(c.func) == "setattr"][0]
    R.check(not any(isinstance(x, (ast.Break, ast.Continue, ast.Return)) for x in ast.walk(setloops[0])) and isinstance(pyfacts.containing_stmt(call), ast.Expr)
            and getattr(pyfacts.containing_stmt(call), "_parent", None) is setloops[0], "C17.R1", REL, call.lineno, "columnfile.set_attributes",
            "setattr for every title, unconditionally", "some titles are skipped by the re-synchronisation")
    nwrites = 0
    for name, fn in methods.items():
        w = data_writes(fn)
        if not w:
            continue
        if name in EXEMPT:
            R.inst("C17.R1", "columnfile.%s: %d storage writes (exempt: %s)" % (name, len(w), EXEMPT[name]))
            continue
        cfg = pyfacts.PyCFG(fn)
        resyncs = []
        for s in ast.walk(fn):
            if isinstance(s, ast.stmt) and not isinstance(s, (ast.If, ast.For, ast.While, ast.Try, ast.With, ast.FunctionDef)):
                r = is_resync(s)
                if r:
                    node = cfg.node_of(s)
                    if node is not None:
                        resyncs.append((node, r))
        for stmt, what in w:
            nwrites += 1
            if what == "rebind self.__data" and isinstance(stmt, ast.Assign) and isinstance(stmt.value, ast.Call) \
                    and pyfacts.dotted(stmt.value.func) in ("list", "tuple") and len(stmt.value.args) == 1 and is_self_data(stmt.value.args[0]):
                # the container changes, the columns in it do not (rows of the 2-D array become views of the same memory): nothing to re-point
                R.inst("C17.R1", "columnfile.%s: %s keeps every column" % (name, src(stmt)))
                continue
            if isinstance(stmt, ast.Assign) and what.startswith("rebind slot"):
                rv_ = pyfacts.resolved(fn, stmt.value, 2, keep=("self",))
                if isinstance(rv_, ast.Call) and pyfacts.dotted(rv_.func) == "getattr" and len(rv_.args) == 2 and src(rv_.args[0]) == "self":
                    # chkarray written out: the slot receives the attribute of that title - storage and attribute agree by construction
                    R.inst("C17.R1", "columnfile.%s: %s copies the attribute into the storage" % (name, src(stmt)))
                    continue
            wn = cfg.node_of(stmt)
            if wn is None:
                R.fail("C17.R1: cannot place statement %s of %s in the CFG" % (src(stmt)[:50], name))
            ok = any(cfg.postdominates(rn, wn) and rn is not wn for rn, r in resyncs)
            how = [r for rn, r in resyncs if cfg.postdominates(rn, wn)]
            R.check(ok, "C17.R1", REL, stmt.lineno, "columnfile.%s" % name, "%s: %s" % (what, src(stmt)[:70]),
                    "the column storage is rebound but the per-title attributes are not re-synchronised on every path to "
                    "the method's normal exit: cf.<title> and cf.getcolumn(<title>) become different arrays",
                    desc="columnfile.%s %s -> %s" % (name, what, how[:1]))
    if nwrites < 8:
        R.fail("C17.R1 examined %d storage writes, expected at least 8" % nwrites)
    # subclasses / module functions must not touch the private storage directly
    outside = 0
    for n in ast.walk(m.tree):
        if isinstance(n, ast.Attribute) and n.attr in ("_columnfile__data", "_columnfile__bigarray"):
            outside += 1
            R.violation("C17.R1", REL, n.lineno, "<module>", src(n), "private storage accessed by its mangled name")
    R.inst("C17.R1", "no access to _columnfile__data outside the class (%d found)" % outside, ok=outside == 0)


# --------------------------------------------------------------------------------------------------
def r2(R, m, methods):
    R.rule("C17.R2", "filter / reorder / copyrows apply one loop-invariant selector to an iteration over the whole storage; "
                     "filter updates nrows from the result before re-synchronising; sortby/removerows go through reorder/filter")
    for name, selname in (("filter", None), ("reorder", None), ("copyrows", None)):
        if methods.get(name) is None:
            R.fail("columnfile.%s vanished" % name)
        fn = m.ifunc("%s.%s" % (CLS, name), keep=("set_attributes", "filter", "reorder"))   # helpers inlined, counting whiles as for loops
        loops = []
        for n in ast.walk(fn):
            if isinstance(n, ast.For):
                it = n.iter
                if is_self_data(it) or (isinstance(it, ast.Call) and pyfacts.dotted(it.func) == "enumerate" and it.args and is_self_data(it.args[0])):
                    loops.append(("for", n))
                elif isinstance(it, ast.Call) and pyfacts.dotted(it.func) == "range" and len(it.args) in (1, 2) and \
                        pyfacts.resolved_src(fn, it.args[-1], 3, keep=("self",)).replace(" ", "") == "len(self.__data)" and (len(it.args) == 1 or src(it.args[0]) == "0") \
                        and isinstance(n.target, ast.Name):
                    loops.append(("index", n))
            if isinstance(n, ast.ListComp) and len(n.generators) == 1 and is_self_data(n.generators[0].iter):
                loops.append(("comp", n))
        # two-phase form: 'new = [col[sel] for col in self.__data]' then 'for col, vals in zip(self.__data, new): col[:] = vals' - the second
        # loop stores what the first one computed, column by column (zip of the storage with a list built from the whole storage)
        stores2 = []
        for n in ast.walk(fn):
            if isinstance(n, ast.For) and isinstance(n.iter, ast.Call) and pyfacts.dotted(n.iter.func) == "zip" and len(n.iter.args) == 2 \
                    and is_self_data(n.iter.args[0]) and isinstance(n.target, ast.Tuple) and len(n.target.elts) == 2:
                other = pyfacts.resolved(fn, n.iter.args[1], 2, keep=("self",))
                if any(other_c for other_c in [x for x in ast.walk(other) if isinstance(x, ast.ListComp)]
                       if any(k_ == "comp" and src(c_) == src(other_c) for k_, c_ in loops)):
                    stores2.append(n)
            # ... or 'for i, vals in enumerate(new): self.__data[i] = vals' - the slots receive, in order, the list built from the whole storage
            if isinstance(n, ast.For) and isinstance(n.iter, ast.Call) and pyfacts.dotted(n.iter.func) == "enumerate" and len(n.iter.args) == 1 \
                    and not is_self_data(n.iter.args[0]) and isinstance(n.target, ast.Tuple) and len(n.target.elts) == 2:
                other = pyfacts.resolved(fn, n.iter.args[0], 2, keep=("self",))
                if isinstance(other, ast.ListComp) and any(k_ == "comp" and src(c_) == src(other) for k_, c_ in loops):
                    slot_stores = [s_ for s_ in n.body if isinstance(s_, ast.Assign) and isinstance(s_.targets[0], ast.Subscript) and is_self_data(s_.targets[0].value)
                                   and src(s_.targets[0].slice) == src(n.target.elts[0]) and src(s_.value) == src(n.target.elts[1])]
                    if len(slot_stores) == 1 and len(n.body) == 1:
                        stores2.append(n)
            # ... or 'for i in range(len(new)): self.__data[i] = new[i]'
            if isinstance(n, ast.For) and isinstance(n.iter, ast.Call) and pyfacts.dotted(n.iter.func) == "range" and len(n.iter.args) == 1 and isinstance(n.target, ast.Name) \
                    and isinstance(n.iter.args[0], ast.Call) and pyfacts.dotted(n.iter.args[0].func) == "len" and len(n.iter.args[0].args) == 1 \
                    and isinstance(n.iter.args[0].args[0], ast.Name):
                lst = n.iter.args[0].args[0]
                other = pyfacts.resolved(fnn, lst, 2, keep=("self",)) if (fnn := pyfacts.normalise_loops(pyfacts.clone(fn))) is not None else None
                if isinstance(other, ast.ListComp) and len(other.generators) == 1 and is_self_data(other.generators[0].iter) and not other.generators[0].ifs:
                    slot_stores = [s_ for s_ in n.body if isinstance(s_, ast.Assign) and isinstance(s_.targets[0], ast.Subscript) and is_self_data(s_.targets[0].value)
                                   and src(s_.targets[0].slice) == n.target.id and src(s_.value).replace(" ", "") == "%s[%s]" % (lst.id, n.target.id)]
                    if len(slot_stores) == 1 and len(n.body) == 1:
                        stores2.append(n)
        loops = [(k_, n) for k_, n in loops]
        recognised = {id(n) for k_, n in loops} | {id(n) for n in stores2}
        for n in ast.walk(fn):
            its = [n.iter] if isinstance(n, ast.For) else ([g.iter for g in n.generators] if isinstance(n, (ast.ListComp, ast.GeneratorExp)) else [])
            for it in its:
                if id(n) not in recognised and any(is_self_data(x) for x in ast.walk(pyfacts.resolved(fn, it, 3, keep=("self",)))):
                    R.check(False, "C17.R2", REL, n.lineno, "columnfile.%s" % name, "iteration over %s" % src(it),
                            "the row operation iterates over something derived from the storage that is not the whole of self.__data: columns are skipped or visited twice")
        R.shape(len(loops) >= 1, "C17.R2", REL, "columnfile.%s" % name, "an iteration over the whole of self.__data")
        R.check(len(loops) == 1, "C17.R2", REL, fn.lineno, "columnfile.%s" % name, "iteration over the whole of self.__data (%d found)" % len(loops),
                "the row operation must visit every column exactly once")
        if len(loops) != 1:
            continue
        kind, node = loops[0]
        if kind == "index":
            ivar = node.target.id
            subs = [x for x in ast.walk(node) if isinstance(x, ast.Subscript) and isinstance(x.ctx, ast.Load) and isinstance(x.value, ast.Subscript)
                    and is_self_data(x.value.value) and src(x.value.slice) == ivar]
            body_assigned = set(x.id for s in node.body for x in ast.walk(s) if isinstance(x, ast.Name) and isinstance(x.ctx, ast.Store))
            colvar = ivar
            kind = "for"
        elif kind == "for":
            tnames = [x.id for x in ast.walk(node.target) if isinstance(x, ast.Name)]
            colvar = tnames[-1]
            subs = [x for x in ast.walk(node) if isinstance(x, ast.Subscript) and isinstance(x.value, ast.Name) and x.value.id == colvar
                    and isinstance(x.ctx, ast.Load)]
            body_assigned = set(x.id for s in node.body for x in ast.walk(s) if isinstance(x, ast.Name) and isinstance(x.ctx, ast.Store))
        else:
            g = node.generators[0]
            colvar = [x.id for x in ast.walk(g.target) if isinstance(x, ast.Name)][-1]
            subs = [x for x in ast.walk(node.elt) if isinstance(x, ast.Subscript) and isinstance(x.value, ast.Name) and x.value.id == colvar]
            body_assigned = set()
            R.check(not g.ifs, "C17.R2", REL, node.lineno, "columnfile.%s" % name, "no column is filtered out of the comprehension", "an 'if' clause drops columns")
        sels = set(src(x.slice) for x in subs)
        R.check(len(subs) >= 1 and len(sels) == 1, "C17.R2", REL, node.lineno, "columnfile.%s" % name,
                "selector(s) applied to each column: %s" % sorted(sels), "every column must be indexed with the same selector")
        if len(sels) == 1:
            selvars = set(x.id for x in ast.walk(subs[0].slice) if isinstance(x, ast.Name))
            R.check(not (selvars & body_assigned) and colvar not in selvars, "C17.R2", REL, node.lineno, "columnfile.%s" % name,
                    "selector %s is loop invariant" % sorted(sels), "the selector changes from column to column")
        if kind == "for":
            has_break = any(isinstance(x, (ast.Break, ast.Continue, ast.Return)) for s in node.body for x in ast.walk(s))
            R.check(not has_break, "C17.R2", REL, node.lineno, "columnfile.%s" % name, "loop over columns has no early exit", "break/continue/return skips columns")
    # filter: nrows updated from the filtered data, before set_attributes
    fn = methods["filter"]
    cfg = pyfacts.PyCFG(fn)
    nr = [s for s in ast.walk(fn) if isinstance(s, ast.Assign) and any(src(t) == "self.nrows" for t in s.targets)]
    sa = [s for s in ast.walk(fn) if isinstance(s, ast.Expr) and isinstance(s.value, ast.Call) and pyfacts.dotted(s.value.func) == "self.set_attributes"]
    nrv = pyfacts.resolved_src(fn, nr[0].value, 2, keep=("self",)) if len(nr) == 1 else ""
    ok = len(nr) == 1 and len(sa) >= 1 and "self.__data" in nrv and "len(" in nrv
    if ok:
        ok = cfg.dominates(cfg.node_of(nr[0]), cfg.node_of(sa[-1])) and nr[0].lineno > max(
            [s.lineno for s, w in data_writes(fn)] or [0])
    R.check(ok, "C17.R2", REL, fn.lineno, "columnfile.filter", "self.nrows = len(self.__data[0]) after filtering, before set_attributes()",
            "nrows is not recomputed from the filtered columns before the attributes are re-synchronised")
    # wrappers
    for name, callee in (("sortby", "reorder"), ("removerows", "filter")):
        fn = methods.get(name)
        if fn is None:
            R.fail("columnfile.%s vanished" % name)
        calls = [c for c in ast.walk(fn) if isinstance(c, ast.Call) and pyfacts.dotted(c.func) == "self.%s" % callee]
        R.check(len(calls) == 1 and not data_writes(fn), "C17.R2", REL, fn.lineno, "columnfile.%s" % name,
                "reaches storage only through self.%s" % callee, "the wrapper manipulates storage itself or no longer delegates")
    # sortby: permutation comes from argsort of one column
    fn = methods["sortby"]
    ok = any(isinstance(c, ast.Call) and (pyfacts.dotted(c.func) or "").endswith("argsort") for c in ast.walk(fn))
    R.check(ok, "C17.R2", REL, fn.lineno, "columnfile.sortby", "order = argsort(column)", "the row order is not an argsort permutation")
    # reorder stores every permuted column: over the whole of the old array ( col[:] = .. ) or as the new array of that slot
    # ( self.__data[i] = vals, as filter does; C17.R9 says which of the two is safe when titles share memory )
    fn = methods["reorder"]
    st = [s for s in ast.walk(fn) if isinstance(s, ast.Assign) and isinstance(s.targets[0], ast.Subscript)]
    R.shape(len(st) == 1, "C17.R2", REL, "columnfile.reorder", "the single store of a permuted column")
    t0 = st[0].targets[0]
    whole = isinstance(t0.slice, ast.Slice) and t0.slice.lower is None and t0.slice.upper is None and t0.slice.step is None
    slot = is_self_data(t0.value) and isinstance(t0.slice, ast.Name)
    R.shape(whole or slot or isinstance(t0.slice, (ast.Slice, ast.Constant)), "C17.R2", REL, "columnfile.reorder", "the target of '%s'" % src(st[0])[:60])
    R.check(whole or slot, "C17.R2", REL, st[0].lineno, "columnfile.reorder", "%s replaces the whole column" % src(st[0])[:50],
            "reorder stores only part of each column (a partial slice / a fixed index): the rest keeps the old order")


# --------------------------------------------------------------------------------------------------
def _first_element_unguarded(fn, name):
    """[(subscript node, True when on every path to it `name` is known not to be empty)] for the reads name[0] in fn.
    Non-emptiness: a dominating test len(name) > 0 / != 0 / >= 1 / `name` (true branch) or len(name) == 0 / not name (false branch);
    a conditional expression `name[0] if len(name) else ...` counts for the read in its body."""
    cfg = pyfacts.PyCFG(fn)
    par = {}
    for n_ in ast.walk(fn):
        for c in ast.iter_child_nodes(n_):
            par[c] = n_

    def nonempty(t, pol):
        t_ = src(t).replace(" ", "")
        pos = ("len(%s)>0" % name, "len(%s)!=0" % name, "len(%s)>=1" % name, name, "0<len(%s)" % name, "len(%s)" % name)
        neg = ("len(%s)==0" % name, "not%s" % name, "len(%s)<1" % name, "not(%s)" % name, "notlen(%s)" % name)
        return (t_ in pos and pol) or (t_ in neg and not pol)
    out = []
    for sub in [x for x in ast.walk(fn) if isinstance(x, ast.Subscript) and src(x.value) == name and pyfacts.const_int(x.slice) == 0 and isinstance(x.ctx, ast.Load)]:
        ok = False
        cur = sub
        while cur in par and not isinstance(cur, ast.stmt):
            up = par[cur]
            if isinstance(up, ast.IfExp) and ((cur is up.body and nonempty(up.test, True)) or (cur is up.orelse and nonempty(up.test, False))):
                ok = True
            cur = up
        node = cfg.node_of(cur) if isinstance(cur, ast.stmt) else None
        if node is not None and any(nonempty(t, pol) for t, pol in cfg.guards(node)):
            ok = True
        out.append((sub, ok))
    return out


def r3(R, m, methods):
    R.rule("C17.R3", "addcolumn, set_bigarray, __setattr__ (array case) and filter compare the incoming length with nrows "
                     "before anything is stored; set_bigarray reads the first column only when there is one (an empty columnfile can be copied)")
    sb = methods.get("set_bigarray")
    if sb is not None and len(sb.args.args) >= 2:
        arn = sb.args.args[1].arg
        for sub, ok in _first_element_unguarded(sb, arn):
            R.check(ok, "C17.R3", REL, sub.lineno, "columnfile.set_bigarray", "%s read only when the list of columns is not empty" % src(sub),
                    "copy() / copyrows() hand set_bigarray the list of columns, which is empty for a columnfile without columns "
                    "(newcolumnfile([]).copy(), columnfile(new=True).copyrows([])): %s raises IndexError, although an empty columnfile is a "
                    "legitimate start state that addcolumn and filter accept" % src(sub))
    spec = {"addcolumn": ("col", "self.nrows"), "filter": ("mask", "self.nrows"), "__setattr__": ("value", "self.nrows"),
            "set_bigarray": ("ar", None)}
    for name, (arg, against) in spec.items():
        fn = methods.get(name)
        if fn is None:
            R.fail("columnfile.%s vanished" % name)
        try:
            fn = m.ifunc("%s.%s" % (CLS, name), keep=("set_attributes", "filter", "reorder", "addcolumn", "setcolumn", "chkarray", "set_bigarray", "get_bigarray"))
        except Exception:
            pass                    # module-level / private helpers that hold the length checks are read in place
        cfg = pyfacts.PyCFG(fn)
        gates = []
        for s in ast.walk(fn):
            test = None
            if isinstance(s, ast.Assert):
                test = s.test
            elif isinstance(s, ast.If) and any(isinstance(x, ast.Raise) for x in s.body):
                test = s.test
            if test is None:
                continue
            t = src(test)
            if "len(%s" % arg in t and (against is None or against in t):
                gates.append(s)
            elif name == "set_bigarray" and "len(" in t:
                gates.append(s)
        writes = [s for s, w in data_writes(fn)]
        R.check(bool(gates), "C17.R3", REL, fn.lineno, "columnfile.%s" % name, "length gate on '%s' (%d found)" % (arg, len(gates)),
                "no check of the incoming length against nrows: a ragged column can be stored")
        if not gates:
            continue
        if name == "set_bigarray":
            # needs: len(ar) == len(titles) and every col has the same length
            txt = " ".join(src(g) for g in gates)
            R.check("len(self.titles)" in txt and "nrows" in txt, "C17.R3", REL, fn.lineno, "columnfile.set_bigarray",
                    "checks number of columns and equal row count", "set_bigarray must check both dimensions")
        for w in writes:
            wn = cfg.node_of(w)
            # a gate whose test node dominates the write (for the 'raise' form, the If test; for assert the stmt)
            ok = False
            for g in gates:
                gn = cfg.node_of(g) if isinstance(g, ast.Assert) else None
                if gn is not None and cfg.dominates(gn, wn):
                    ok = True
                if isinstance(g, ast.If):
                    # the write must be on the not-raising side: dominated by assume(test, False)
                    for tnode, pol in cfg.guards(wn):
                        if tnode is g.test and pol is False:
                            ok = True
            if name == "__setattr__" and "[:]" in src(w):
                continue      # in-place broadcast of a scalar: length preserved by construction
            R.check(ok, "C17.R3", REL, w.lineno, "columnfile.%s" % name, "%s dominated by the length gate" % src(w)[:60],
                    "a store into the column storage is reachable without passing the length check")


# --------------------------------------------------------------------------------------------------
FRESH_CALLS = ("copy", "array", "ascontiguousarray")


def fresh(e, elemvar):
    """expression certainly yields a new array not sharing memory with elemvar"""
    if isinstance(e, ast.Call):
        d = pyfacts.dotted(e.func) or ""
        last = d.split(".")[-1]
        if isinstance(e.func, ast.Attribute) and e.func.attr == "copy":
            return True
        if last in ("array", "copy") and d.split(".")[0] in ("np", "numpy"):
            # np.array(x) copies by default; np.array(x, copy=False) does not
            for kw in e.keywords:
                if kw.arg == "copy" and not (isinstance(kw.value, ast.Constant) and kw.value.value is True):
                    return False
            return True
        if isinstance(e.func, ast.Attribute) and e.func.attr == "astype":
            return not any(kw.arg == "copy" for kw in e.keywords)
    if isinstance(e, ast.BinOp):
        return True
    return False


def r4(R, m, methods):
    R.rule("C17.R4", "copy() and copyrows() hand the new object freshly allocated columns (.copy(), np.array(...)); a bare "
                     "col[rows] may be a view when rows is a slice")
    for name in ("copy", "copyrows"):
        if methods.get(name) is None:
            R.fail("columnfile.%s vanished" % name)
        fn = m.ifunc("%s.%s" % (CLS, name), keep=("chkarray", "set_attributes", "bigarray", "set_bigarray"))   # private helpers read as if written here
        comps = [n for n in ast.walk(fn) if isinstance(n, ast.ListComp) and len(n.generators) == 1 and is_self_data(n.generators[0].iter)]
        R.shape(len(comps) == 1, "C17.R4", REL, "columnfile.%s" % name, "the comprehension over self.__data that builds the new object's columns")
        for c in comps:
            colvar = src(c.generators[0].target)
            ok = fresh(c.elt, colvar)
            R.check(ok, "C17.R4", REL, c.lineno, "columnfile.%s" % name, "new column expression %s" % src(c.elt),
                    "the new columnfile's columns may share memory with the source (basic indexing with a slice returns a "
                    "view): writing to the copy changes the original")
        # any other read self.__data[...] that is stored into the new object (a whole-table selection self.__data[:, rows] on the 2D layout)
        for sub in ast.walk(fn):
            if not (isinstance(sub, ast.Subscript) and is_self_data(sub.value) and isinstance(sub.ctx, ast.Load)):
                continue
            wrapped, n_, stmt = False, sub, None
            while n_ is not None:
                par = getattr(n_, "_parent", None)
                if isinstance(par, ast.Call) and n_ in par.args and fresh(par, None):
                    wrapped = True
                if isinstance(par, ast.Call) and isinstance(par.func, ast.Attribute) and par.func.value is n_ and fresh(par, None):
                    wrapped = True
                if isinstance(par, ast.BinOp):
                    wrapped = True
                if isinstance(par, ast.stmt):
                    stmt = par
                    break
                n_ = par
            into_new = False
            if isinstance(stmt, ast.Assign):
                into_new = any(isinstance(t, ast.Attribute) and isinstance(t.value, ast.Name) and t.value.id != "self" for t in stmt.targets)
            elif isinstance(stmt, ast.Expr) and isinstance(stmt.value, ast.Call) and isinstance(stmt.value.func, ast.Attribute):
                f_ = stmt.value.func
                into_new = isinstance(f_.value, ast.Name) and f_.value.id != "self" and f_.attr in ("set_bigarray", "addcolumn", "setcolumn")
            if into_new:
                R.check(wrapped, "C17.R4", REL, sub.lineno, "columnfile.%s" % name, "new storage expression %s" % src(stmt)[:80],
                        "the new columnfile's storage is a selection of self.__data that is not copied (basic indexing with a slice "
                        "returns a view of the 2D table): writing to the copy changes the original")
        # the new object gets its own titles list and parameters
        tl = [s for s in ast.walk(fn) if isinstance(s, ast.Assign) and src(s.targets[0]).endswith(".titles")]
        R.check(all(not (isinstance(s.value, ast.Attribute) and src(s.value) == "self.titles") for s in tl) and bool(tl), "C17.R4", REL,
                fn.lineno, "columnfile.%s" % name, "titles list copied (%s)" % [src(s.value) for s in tl],
                "the copy shares the titles list object with the original: addcolumn on one renames the other")
        pl = [s for s in ast.walk(fn) if isinstance(s, ast.Assign) and src(s.targets[0]).endswith(".parameters")]
        R.check(bool(pl) and all("self.parameters" != src(s.value) for s in pl), "C17.R4", REL, fn.lineno, "columnfile.%s" % name,
                "parameters object rebuilt", "the copy shares the parameters object")


# --------------------------------------------------------------------------------------------------
def r5(R, m, methods):
    R.rule("C17.R5", "writefile, filter, copy, copyrows call chkarray() before the first read of self.__data")
    for name in ("writefile", "filter", "copy", "copyrows"):
        if methods.get(name) is None:
            R.fail("columnfile.%s vanished" % name)
        fn = m.ifunc("%s.%s" % (CLS, name), keep=("chkarray", "set_attributes"))
        cfg = pyfacts.PyCFG(fn)
        chk = [s for s in ast.walk(fn) if isinstance(s, ast.Expr) and isinstance(s.value, ast.Call) and pyfacts.dotted(s.value.func) == "self.chkarray"]
        if not chk:
            # chkarray written out: a loop over enumerate(self.titles) that stores getattr(self, <title>) into self.__data[<index>]
            for l_ in ast.walk(fn):
                if isinstance(l_, ast.For) and isinstance(l_.iter, ast.Call) and pyfacts.dotted(l_.iter.func) == "enumerate" and l_.iter.args \
                        and src(l_.iter.args[0]) == "self.titles" and isinstance(l_.target, ast.Tuple) and len(l_.target.elts) == 2:
                    iv_, nv_ = src(l_.target.elts[0]), src(l_.target.elts[1])
                    for a_ in ast.walk(l_):
                        if isinstance(a_, ast.Assign) and isinstance(a_.targets[0], ast.Subscript) and is_self_data(a_.targets[0].value) and src(a_.targets[0].slice) == iv_ \
                                and pyfacts.resolved_src(fn, a_.value, 2, keep=("self", nv_)).replace(" ", "") == "getattr(self,%s)" % nv_:
                            chk = [l_]
        R.check(len(chk) >= 1, "C17.R5", REL, fn.lineno, "columnfile.%s" % name, "self.chkarray() called", "chkarray() call removed")
        if not chk:
            continue
        cn = cfg.node_of(chk[0])
        for n in ast.walk(fn):
            if is_self_data(n):
                st = pyfacts.containing_stmt(n)
                sn = cfg.node_of(st)
                if sn is None:
                    continue
                ok = cfg.dominates(cn, sn)
                R.check(ok, "C17.R5", REL, n.lineno, "columnfile.%s" % name, "use of self.__data at '%s'" % src(st)[:50],
                        "storage is read before chkarray() has folded attribute assignments back into it")


# --------------------------------------------------------------------------------------------------
def never_true_hasattr(test):
    """hasattr(self, "__x") inside a class body can never be true: the attribute is stored name-mangled"""
    return isinstance(test, ast.Call) and pyfacts.dotted(test.func) == "hasattr" and len(test.args) == 2 \
        and isinstance(test.args[1], ast.Constant) and isinstance(test.args[1].value, str) \
        and test.args[1].value.startswith("__") and not test.args[1].value.endswith("__")


def truth3(test):
    """three-valued truth of a test in which hasattr(self, "__name") is known to be false (name mangling): True / False / None"""
    if isinstance(test, ast.Constant):
        return bool(test.value)
    if isinstance(test, ast.UnaryOp) and isinstance(test.op, ast.Not):
        v = truth3(test.operand)
        return None if v is None else (not v)
    if isinstance(test, ast.BoolOp):
        vals = [truth3(v) for v in test.values]
        if isinstance(test.op, ast.And):
            return False if any(v is False for v in vals) else (True if all(v is True for v in vals) else None)
        return True if any(v is True for v in vals) else (False if all(v is False for v in vals) else None)
    if never_true_hasattr(test):
        return False
    return None


def always_true(test):
    return truth3(test) is True


def r6(R, m, methods):
    R.rule("C17.R6", "the 2-D bigarray cache is only adopted as column storage when it is fresh: rebuilt from the columns on "
                     "every path before 'self.__data = self.__bigarray', or invalidated by every method that rebinds columns")
    fn = methods.get("get_bigarray")
    if fn is None:
        R.fail("columnfile.get_bigarray vanished")
    cfg = pyfacts.PyCFG(fn)
    adopt = [s for s in ast.walk(fn) if isinstance(s, ast.Assign) and any(is_self_data(t) for t in s.targets)
             and src(s.value) == "self.__bigarray"]
    if not adopt:
        R.inst("C17.R6", "get_bigarray does not adopt a cached array as storage")
        return
    rebuild = [s for s in ast.walk(fn) if isinstance(s, ast.Assign) and any(src(t) == "self.__bigarray" for t in s.targets)
               and "self.__data" in src(s.value)]
    for a in adopt:
        an = cfg.node_of(a)
        fresh_ok = False
        why = "no rebuild of the cache from self.__data precedes the adoption"
        for rb in rebuild:
            rn = cfg.node_of(rb)
            if cfg.dominates(rn, an):
                fresh_ok = True
                continue
            # guarded rebuild: accept when the guard is provably always true
            gs = [(t, pol) for t, pol in cfg.guards(rn)]
            if gs and all(pol and always_true(t) for t, pol in gs):
                fresh_ok = True
            else:
                why = "the cache is rebuilt only under '%s', which is not always true" % " and ".join(src(t) for t, pol in gs)
        if not fresh_ok:
            # alternative discipline: every other writer of the storage invalidates the cache
            inval_ok = True
            missing = []
            for name, f2 in methods.items():
                if name in ("get_bigarray", "set_bigarray", "__init__", "chkarray"):
                    continue
                w = [x for x in data_writes(f2) if not ("[:]" in src(x[0]))]
                if not w:
                    continue
                inv = [s for s in ast.walk(f2) if isinstance(s, ast.Assign) and any(src(t) == "self.__bigarray" for t in s.targets)]
                dele = [s for s in ast.walk(f2) if isinstance(s, ast.Delete) and any(src(t) == "self.__bigarray" for t in s.targets)]
                if not inv and not dele:
                    inval_ok = False
                    missing.append(name)
            fresh_ok = inval_ok
            if not inval_ok:
                why += "; and %s rebind columns without invalidating it" % ", ".join(sorted(missing))
        R.check(fresh_ok, "C17.R6", REL, a.lineno, "columnfile.get_bigarray", "adopt cache: %s" % src(a),
                "a stale 2-D copy of the columns can become the storage again after filter/addcolumn/attribute assignment "
                "changed the columns: " + why)


# --------------------------------------------------------------------------------------------------
def r7(R, m, methods):
    """'the attribute, item and getcolumn views of a column are the same data': item and getcolumn read self.__data[i]; the attribute
    is whatever __setattr__ binds.  For a key that is a column title the object bound must be the stored column itself - not the
    value that was assigned (a scalar stays a scalar attribute and chkarray() later writes it into the storage; an array assigned
    while the storage is the 2-D bigarray is copied into the row and the attribute keeps pointing at the caller's array)."""
    R.rule("C17.R7", "columnfile.__setattr__: for a column title the attribute is bound to the stored column self.__data[index] (after the "
                     "broadcast / the store), not to the assigned value")
    fn = methods.get("__setattr__")
    if fn is None:
        R.fail("columnfile.__setattr__ vanished")
    key, val = fn.args.args[1].arg, fn.args.args[2].arg
    cfg = pyfacts.PyCFG(fn)
    sup = [c for c in ast.walk(fn) if isinstance(c, ast.Call) and isinstance(c.func, ast.Attribute) and c.func.attr == "__setattr__" and len(c.args) == 2
           and src(c.args[0]) == key]
    sup += [c for c in ast.walk(fn) if isinstance(c, ast.Call) and src(c.func) == "object.__setattr__" and len(c.args) == 3 and src(c.args[1]) == key]
    R.shape(bool(sup), "C17.R7", REL, "columnfile.__setattr__", "the call that binds the attribute (super().__setattr__(key, value))")
    n = 0

    def atoms(guards):
        """atomic facts (text, polarity) implied by a list of (test, polarity): conjunctions taken true and disjunctions taken false split"""
        out = set()
        for t, pol in guards:
            if isinstance(t, ast.UnaryOp) and isinstance(t.op, ast.Not):
                out |= atoms([(t.operand, not pol)])
            elif isinstance(t, ast.BoolOp) and ((isinstance(t.op, ast.And) and pol) or (isinstance(t.op, ast.Or) and not pol)):
                out |= atoms([(v_, pol) for v_ in t.values])
            elif isinstance(t, ast.Compare) and len(t.ops) == 1 and isinstance(t.ops[0], ast.NotIn):
                out.add((src(t.left).replace(" ", "") + "in" + src(t.comparators[0]).replace(" ", ""), not pol))
            elif isinstance(t, ast.Compare) and len(t.ops) == 1 and isinstance(t.ops[0], ast.NotEq):
                out.add((src(t.left).replace(" ", "") + "==" + src(t.comparators[0]).replace(" ", "").replace('"', "'"), not pol))
            else:
                out.add((src(t).replace(" ", "").replace('"', "'"), pol))
        return out
    F_TITLES = ("%s=='titles'" % key, True)
    F_NOT_COLUMN = ("%sinself.titles" % key, False)

    def not_a_column(guards):
        """the path condition implies: key is 'titles' (set before self.titles exists) or key is not a column title"""
        f = atoms(guards)
        if F_TITLES in f or F_NOT_COLUMN in f:
            return True
        for t, pol in guards:
            if isinstance(t, ast.BoolOp) and isinstance(t.op, ast.Or) and pol:
                if all((F_TITLES in atoms([(d, True)])) or (F_NOT_COLUMN in atoms([(d, True)])) for d in t.values):
                    return True
            if isinstance(t, ast.BoolOp) and isinstance(t.op, ast.And) and not pol:
                # a conjunction that failed: one of its parts is false, and each part's negation says 'not a column'
                if all((F_TITLES in atoms([(d, False)])) or (F_NOT_COLUMN in atoms([(d, False)])) for d in t.values):
                    return True
        return False
    for c in sup:
        node = cfg.node_of(pyfacts.containing_stmt(c))
        if F_TITLES in atoms(cfg.guards(node)):
            continue
        arg = c.args[-1]
        # on the path through 'key in self.titles' the value must have been re-read from the storage
        vals = cfg.reaching(node, src(arg)) if isinstance(arg, ast.Name) else [(arg, [])]
        for v, g in vals:
            on_title_path = any(src(t).replace(" ", "") == "%sinself.titles" % key and pol for t, pol in g)
            title_guard_seen = any(src(t).replace(" ", "") == "%sinself.titles" % key for t, pol in g + cfg.guards(node))
            if v is None:
                # the parameter itself reaches the binding: acceptable only on the path where key is not a title
                not_title = not_a_column(list(g) + list(cfg.guards(node)))
                n += 1
                R.check(not_title, "C17.R7", REL, c.lineno, "columnfile.__setattr__", "%s binds the assigned value only when %s is not a column title" % (src(c)[:50], key),
                        "for a column title the attribute is bound to the assigned value itself: 'c.x = 3.0' leaves a float attribute next to the "
                        "array column (chkarray() then writes the float into the storage and filter() / copy() fail), and an array assigned while "
                        "the storage is the 2-D bigarray is copied into the row while the attribute keeps the caller's array (c.x[0] = 99 is "
                        "not seen by c['x'])")
            elif isinstance(v, ast.Subscript) and is_self_data(v.value):
                n += 1
                R.inst("C17.R7", "%s:columnfile.__setattr__ attribute bound to %s" % (REL, src(v)))
            elif v == "unknown":
                R.shape(False, "C17.R7", REL, "columnfile.__setattr__", "the value bound to the attribute")
            else:
                n += 1
                R.check(False, "C17.R7", REL, c.lineno, "columnfile.__setattr__", "attribute bound to %s" % src(v)[:50],
                        "for a column title the attribute is bound to something else than the stored column")
    R.shape(n >= 1, "C17.R7", REL, "columnfile.__setattr__", "a binding of the attribute on the column-title path")


def r8(R, m, methods):
    """get_bigarray() turns the column storage into a 2-D ndarray (self.__data = np.asarray(...)).  A method that then uses list
    operations on it (append / insert / extend / pop) raises AttributeError half way through - addcolumn has already extended
    titles and ncols at that point, so the object is left with a title that has no column."""
    R.rule("C17.R8", "list operations on the column storage (self.__data.append / insert / extend / pop) run only where the storage is "
                     "known to be a list (re-made with list(...) / [...] in the same method, or under an isinstance test), since "
                     "get_bigarray() makes it an ndarray")
    nd = []
    for name, fn in methods.items():
        for a in ast.walk(fn):
            if isinstance(a, ast.Assign) and any(is_self_data(t) for t in a.targets):
                v = pyfacts.resolved(fn, a.value, 3, keep=("self",))
                t = src(v)
                if ("np.asarray" in t or "np.array(" in t or "numpy.asarray" in t) or src(a.value) == "self.__bigarray":
                    nd.append((name, a))
    n = 0
    for name, fn0 in methods.items():
        cfg = None
        # private helpers (self._x()) read in place: 'self._columns_to_list()' is the isinstance / list(...) statement it contains
        try:
            fn = m.ifunc("%s.%s" % (CLS, name), keep=("set_attributes", "filter", "reorder", "addcolumn", "setcolumn", "chkarray", "set_bigarray", "get_bigarray"))
        except Exception:
            fn = fn0
        for c in ast.walk(fn):
            if isinstance(c, ast.Call) and isinstance(c.func, ast.Attribute) and c.func.attr in ("append", "insert", "extend", "pop") and is_self_data(c.func.value):
                n += 1
                cfg = cfg or pyfacts.PyCFG(fn)
                node = cfg.node_of(pyfacts.containing_stmt(c))
                safe = False
                for st in cfg.stmts_dominating(node):
                    s_ = st.node
                    if isinstance(s_, ast.Assign) and any(is_self_data(t) for t in s_.targets):
                        v = s_.value
                        if isinstance(v, (ast.List, ast.ListComp)) or (isinstance(v, ast.Call) and src(v.func) == "list"):
                            safe = True
                for t, pol in cfg.guards(node):
                    if pol and "isinstance(self.__data,list)" in src(t).replace(" ", ""):
                        safe = True
                # 'if not isinstance(self.__data, list): self.__data = list(self.__data)' earlier in the same block: a list on both paths
                st0 = pyfacts.containing_stmt(c)
                par = getattr(st0, "_parent", None)
                for f_ in ("body", "orelse", "finalbody"):
                    blk = getattr(par, f_, None)
                    if isinstance(blk, list) and st0 in blk:
                        for prev in blk[:blk.index(st0)]:
                            if isinstance(prev, ast.If) and src(prev.test).replace(" ", "") == "notisinstance(self.__data,list)" and any(
                                    isinstance(a_, ast.Assign) and any(is_self_data(t) for t in a_.targets) and isinstance(a_.value, ast.Call)
                                    and src(a_.value.func) == "list" for a_ in prev.body):
                                safe = True
                if name == "__init__":
                    safe = True
                R.check(safe or not nd, "C17.R8", REL, c.lineno, "columnfile.%s" % name, "%s on list storage" % src(c)[:50],
                        "after a read of .bigarray the storage is an ndarray (columnfile.%s: %s) and this call raises AttributeError - in addcolumn "
                        "after titles and ncols were already extended, leaving a title without a column" % (nd[0][0], src(nd[0][1])[:50]) if nd else "")
    R.shape(n >= 1, "C17.R8", REL, "columnfile", "a list operation on self.__data")


# --------------------------------------------------------------------------------------------------
def r9(R, m, methods):
    """addcolumn keeps the array it is given (np.asanyarray / the bare argument), so after c.addcolumn(c.b, 'd') two slots of the
    storage are ONE array.  A row operation that stores each column as soon as it has permuted it (col[:] = col[indices] inside
    the loop over the storage) then permutes that array twice: a and c are sorted, b and d are not - the rows are torn.  Operations
    that build new arrays (filter, copyrows) are not affected."""
    R.rule("C17.R9", "row operations that store into the existing columns (reorder) read every column before they store any, because "
                     "two titles may hold the same array (addcolumn / __setattr__ keep the caller's array)")
    # premise: a writer that can put the caller's array into the storage uncopied
    ac = methods.get("addcolumn")
    R.shape(ac is not None and len(ac.args.args) >= 2, "C17.R9", REL, "columnfile.addcolumn", "addcolumn(self, col, name)")
    param = ac.args.args[1].arg
    alias = []
    for st, what in data_writes(ac):
        v = None
        if isinstance(st, ast.Assign):
            v = st.value
        elif isinstance(st, ast.Expr) and st.value.args:
            v = st.value.args[-1]
        if v is None:
            continue
        rv = pyfacts.resolved(ac, v, 3, keep=("self", param))
        k = pyfacts.copy_kind(rv, param)
        if k is False:
            alias.append(st)
    R.inst("C17.R9", "addcolumn stores of the caller's array without a copy: %d" % len(alias))
    fn = m.ifunc("%s.reorder" % CLS, keep=("set_attributes",))
    stores = [s_ for s_ in ast.walk(fn) if isinstance(s_, ast.Assign) and isinstance(s_.targets[0], ast.Subscript)]
    R.shape(len(stores) >= 1, "C17.R9", REL, "columnfile.reorder", "the in-place store of a permuted column")
    par = {}
    for n_ in ast.walk(fn):
        for c in ast.iter_child_nodes(n_):
            par[c] = n_
    for st in stores:
        loop = st
        while loop in par and not isinstance(loop, ast.For):
            loop = par[loop]
        R.shape(isinstance(loop, ast.For), "C17.R9", REL, "columnfile.reorder", "the loop around %s" % src(st))
        # does the stored value read a column of the storage inside this same loop?
        colnames = set(x.id for x in ast.walk(loop.target) if isinstance(x, ast.Name))
        direct = is_self_data(loop.iter) or (isinstance(loop.iter, ast.Call) and pyfacts.dotted(loop.iter.func) in ("enumerate", "range"))
        rv = pyfacts.resolved(fn, st.value, 2, keep=tuple(colnames) + ("self",))
        reads_col = [x for x in ast.walk(rv) if isinstance(x, ast.Subscript) and isinstance(x.ctx, ast.Load) and
                     ((isinstance(x.value, ast.Name) and x.value.id in colnames and src(x.value) == src(st.targets[0].value)) or
                      (isinstance(x.value, ast.Subscript) and is_self_data(x.value.value)))]
        single_phase = bool(reads_col) and direct
        # a store INTO an old column array ( col[:] = vals, self.__data[i][:] = vals ) - as opposed to putting a new array in the
        # slot ( self.__data[i] = vals ) - writes memory that another title may share partly: addcolumn(a, 'x'); addcolumn(a[::-1], 'y')
        t0 = st.targets[0]
        whole_slice = isinstance(t0.slice, ast.Slice) and t0.slice.lower is None and t0.slice.upper is None or \
            (isinstance(t0.slice, ast.Constant) and t0.slice.value is Ellipsis)
        into_column = whole_slice and ((isinstance(t0.value, ast.Name) and t0.value.id in colnames | set(
            x.id for l_ in ast.walk(fn) if isinstance(l_, ast.For) and (is_self_data(l_.iter) or any(is_self_data(a_) for a_ in ast.walk(l_.iter)))
            for x in ast.walk(l_.target) if isinstance(x, ast.Name))) or (isinstance(t0.value, ast.Subscript) and is_self_data(t0.value.value)))
        if into_column and alias and not single_phase:
            R.check(False, "C17.R9", REL, st.lineno, "columnfile.reorder", "%s stores into the old column array" % src(st),
                    "the permuted values are written into the existing column arrays, but addcolumn (line %d) keeps the caller's array: two titles "
                    "holding overlapping views of one buffer ( addcolumn(a, 'x'); addcolumn(a[::-1], 'y') ) overwrite each other's rows, so after "
                    "sortby one of them is not in the order of the others - put the new arrays in the slots instead (as filter does)" % alias[0].lineno)
            continue
        if single_phase and alias:
            R.check(False, "C17.R9", REL, st.lineno, "columnfile.reorder", "%s inside the loop over the columns" % src(st),
                    "each column is stored as soon as it is permuted, but addcolumn (line %d) keeps the caller's array: after "
                    "c.addcolumn(c.b, 'd') the titles b and d are one array, which sortby('a') permutes twice (back to its old order) while a "
                    "and c are sorted - the rows no longer belong together" % alias[0].lineno)
        elif single_phase:
            R.inst("C17.R9", "reorder stores column by column; no writer keeps a caller's array")
        else:
            R.inst("C17.R9", "reorder: %s stores values computed before the storing loop" % src(st))
    R.floor("C17.R9", 2)
