"""C06  Scoring and least-squares refinement kernels match their mathematical definition.

Decided: R1 definite initialisation of every local in closest.c; R2 the ubi argument is only overwritten when
both 3x3 inversions succeeded (singular => unchanged); R3 one indexing predicate across the C kernels and
the Python references (sum_j (h_j - rnd(h_j))^2 of h = ubi.g, strict '<' against tol^2); R4 one set of
normal equations (R += g h^T, H += h h^T, UB = R H^-1, ubi = UB^-1) in score_and_refine, refine_assigned
and the Python references; R5 preconditions of the round-to-nearest trick.
Not decided: numerical agreement with numpy.linalg, conditioning, accuracy for |h| ~ 1e3.
"""
import ast

import numpy as np

from engine import cfront, crules, definit, pyfacts, vn, vn_c, vn_py
from engine.cfront import estr, ewalk, swalk
from engine.pyfacts import src

PID = "C06"
CFILE = "src/closest.c"


def e_ref(k="k", ubi="ubi", gv="gv"):
    """reference squared hkl error for a generic peak k"""
    tot = vn.const(0)
    hs = []
    for j in range(3):
        h = vn.const(0)
        for c in range(3):
            h = h + vn.atom("%s[%d][%d]" % (ubi, j, c)) * vn.atom("%s[%s][%d]" % (gv, k, c))
        hs.append(h)
        t = h - vn.app("rnd", h)
        tot = tot + t * t
    return tot, hs


def crules_strip(a):
    while a.k == "cast":
        a = a.a[0]
    if a.k == "un" and a.op == "&":
        return a.a[0]
    return a


def run(R):
    R.assume("real-number model: (x + 1.5*2^52) - 1.5*2^52 is round-to-nearest of x (checked at import by verify_rounding, "
             "valid for |x| < 2^51 under IEEE double evaluation); it differs from floor(x+0.5) only at exact halves")
    tus = cfront.load(R.root, files=["closest.c"])
    if R.want("C06.R1"):
        r1(R, tus)
    if R.want("C06.R2"):
        r2(R, tus)
    if R.want("C06.R3") or R.want("C06.R4"):
        r34(R, tus)
    if R.want("C06.R5"):
        r5(R, tus)
    if R.want("C06.R7"):
        r7(R)
    if R.want("C06.R6"):
        from engine import omp
        R.rule("C06.R6", "every OpenMP directive of closest.c: counters and sums written in a parallel loop are reduction variables, "
                         "temporaries are private, shared arrays are written at the loop's own row only (E2); the counts the kernels "
                         "return do not depend on the thread count")
        omp.report(R, "C06.R6", tus, select=lambda f: f.file == CFILE, floor=3)


# --------------------------------------------------------------------------------------------------
def r1(R, tus):
    R.rule("C06.R1", "every local scalar / array cell in closest.c is assigned before it is read on every path "
                     "(forward must-defined dataflow with callee summaries)")
    nf = 0
    for f in cfront.all_funcs(tus):
        if f.file != CFILE:
            continue
        nf += 1
        an, reps = definit.analyse(f, tus)
        seen = set()
        for name, idx, line, what in reps:
            if name in seen:
                continue
            seen.add(name)
            R.violation("C06.R1", f.file, line, f.name, "%s%s" % (name, idx),
                        "local '%s' is %s before being assigned: the result depends on stack garbage" % (name, what))
        R.inst("C06.R1", "%s:%s %d reads of %d tracked locals" % (f.file, f.name, an.n_reads, len(an.tracked)), ok=not reps)
    R.floor("C06.R1", 15, "functions")


# --------------------------------------------------------------------------------------------------
def r2(R, tus):
    R.rule("C06.R2", "stores to the ubi argument of score_and_refine / refine_assigned are dominated by 'H inverted' and "
                     "'UB inverted'; stores to inverse3x3's argument are dominated by det != 0")
    inv = cfront.find_func(tus, "inverse3x3", CFILE)
    p0 = inv.params[0].name
    st = crules.stores_to_param(inv, p0)
    if not st:
        R.fail("inverse3x3: no stores to its argument found")
    for n, x, t in st:
        g = crules.guard_set(inv.cfg, n.id)
        ok = any(op == "!=" and ("det" in (a, b)) and ("0.0" in (a, b) or "0" in (a, b)) for op, a, b in g)
        R.check(ok, "C06.R2", CFILE, x.line, inv.name, estr(x), "the argument is overwritten without the det != 0 guard: a "
                "singular matrix would be replaced by inf/nan")
    # return codes: 0 on the store path, non-zero otherwise
    rets = [n for n in inv.cfg.nodes if n.k == "return" and n.id in inv.cfg.reachable()]
    for n in rets:
        g = crules.guard_set(inv.cfg, n.id)
        nonsing = any(op == "!=" and "det" in (a, b) for op, a, b in g)
        val = n.e.val if n.e is not None and n.e.k == "int" else None
        R.check((val == 0) == nonsing, "C06.R2", CFILE, n.line, inv.name, "return %s under %s" % (estr(n.e), sorted(g)),
                "inverse3x3 must return 0 exactly on the path that inverted the matrix")
    byname = {g.name: g for g in cfront.all_funcs(tus)}
    for fname in ("score_and_refine", "refine_assigned"):
        f = cfront.find_func(tus, fname, CFILE)
        # helpers the solve / write-back was moved into are read in place (inverse3x3 stays a call: its status is what guards)
        f, _d, _k = cfront.inline_calls(f, byname, which=set(byname) - {"inverse3x3", fname}, depth=3)
        ubi = f.params[0].name
        st = crules.stores_to_param(f, ubi)
        if not st:
            # the write-back may have been moved into a helper that receives ubi: then this rule cannot follow the guards
            handed = [x for s2, x in cfront.all_exprs(f.body) if x.k == "call" and x.name not in ("inverse3x3",)
                      and any(cfront.base_var(crules_strip(a)) is not None and cfront.base_var(crules_strip(a)).name == ubi for a in x.a)]
            R.shape(not handed, "C06.R2", CFILE, fname, "the write-back of %s inside %s itself (it is handed to %s)" % (
                ubi, fname, sorted(set(h.name for h in handed))))
        R.check(bool(st), "C06.R2", CFILE, f.line, fname, "stores to %s" % ubi, "the refined matrix is never written back")
        for n, x, t in st:
            conds = f.cfg.guards(n.id)
            texts = [(estr(e), pol) for e, pol in conds]
            # need: (k == 0) true with k assigned from inverse3x3(H), and (inverse3x3(UB) == 0) true
            # inversions known to have succeeded here:  inverse3x3(M) == 0  taken,  inverse3x3(M) != 0  not taken, directly or through a
            # variable that holds the status
            inverted = set()
            for e, pol in conds:
                if not (e.k == "bin" and e.op in ("==", "!=")) or (e.op == "==") != bool(pol):
                    continue
                l, r = e.a
                if l.k == "int":
                    l, r = r, l
                if not (r.k == "int" and r.val == 0):
                    continue
                if l.k == "var":
                    for s2, y in cfront.all_exprs(f.body):
                        if y.k == "asg" and y.op == "=" and y.a[0].k == "var" and y.a[0].name == l.name \
                                and y.a[1].k == "call" and y.a[1].name == "inverse3x3":
                            inverted.add(estr(y.a[1].a[0]))
                    for s2 in swalk(f.body):
                        if s2.k == "decl" and s2.var.name == l.name and s2.init is not None and s2.init.k == "call" and s2.init.name == "inverse3x3":
                            inverted.add(estr(s2.init.a[0]))
                if l.k == "call" and l.name == "inverse3x3":
                    inverted.add(estr(l.a[0]))
            k_ok = ub_ok = len(inverted) >= 2
            R.check(k_ok and ub_ok, "C06.R2", CFILE, x.line, fname, "%s guarded by %s" % (estr(x), texts),
                    "the input matrix is overwritten although one of the two 3x3 inversions may have failed "
                    "(singular normal equations must leave ubi unchanged)")
            # status variable not reassigned between the inverse call and the test: single assignment from inverse3x3
        stat = [y for s2, y in cfront.all_exprs(f.body) if y.k == "asg" and y.a[0].k == "var" and y.a[1].k == "call"
                and y.a[1].name == "inverse3x3"]
        for y in stat:
            name = y.a[0].name
            later = [z for s2, z in cfront.all_exprs(f.body) if z.k in ("asg", "incdec") and z.a[0].k == "var"
                     and z.a[0].name == name and z is not y and (z.line or 0) > (y.line or 0)]
            R.check(not later, "C06.R2", CFILE, y.line, fname, "%s holds the inversion status until tested" % name,
                    "the status of inverse3x3 is overwritten before it is tested")


# --------------------------------------------------------------------------------------------------
def sym_kernel(R, tus, fname, symloops, extra_inputs=None):
    f = cfront.find_func(tus, fname, CFILE)
    sym = vn_c.CSym(f, tus, models={"inverse3x3": vn_c.model_inverse3x3}, symbolic_loops=symloops, inputs=extra_inputs)
    paths = sym.run()
    return f, paths


def find_tol_cond(path, tolname):
    """the comparison of the error with tol*tol among the conditions of this path, with the truth it has on the path (None when the
    path only knows that a conjunction failed / a disjunction held): ('<', error, truth, text, line).  Negations and both
    connectives are read through, so  if (!(e < t) || !(e < d)) release; else assign;  is the same test as  if (e < t && e < d) assign"""
    tt = vn.atom(tolname) * vn.atom(tolname)

    def leaves(c, pol):
        if c[0] == "not":
            for x in leaves(c[1], None if pol is None else (not pol)):
                yield x
        elif c[0] in ("and", "or"):
            known = pol is not None and ((c[0] == "and") == pol)      # a true conjunction / a false disjunction fixes every part
            for sub in (c[1], c[2]):
                for x in leaves(sub, pol if known else None):
                    yield x
        else:
            yield c, pol
    for op, a, b, pol, text, line in path.conds:
        for (lop, la, lb), lpol in leaves((op, a, b), pol):
            if lop in ("<", "<=") and vn.equal(lb, tt):
                return lop, la, lpol, text, line
            if lop in (">", ">=") and vn.equal(la, tt):
                return {">": "<", ">=": "<="}[lop], lb, lpol, text, line
    return None


def r34(R, tus, r3n="C06.R3", r4n="C06.R4"):
    R.rule(r3n, "every scoring kernel and Python reference computes sum_j (h_j - rnd(h_j))^2 with h = ubi.g and "
                     "selects with a strict '<' against tol*tol")
    R.rule(r4n, "score_and_refine, refine_assigned and the Python references accumulate R += g h^T, H += h h^T over "
                     "the selected peaks, form UB = R.H^-1 and return UB^-1; mean error is sum/n guarded by n>0")
    E, hs = e_ref("k")
    ih = [vn.app("rnd", h) for h in hs]
    g = [vn.atom("gv[k][%d]" % c) for c in range(3)]
    want_R = [[g[i] * ih[j] for j in range(3)] for i in range(3)]
    want_H = [[ih[i] * ih[j] for j in range(3)] for i in range(3)]
    Hinv, hkey = vn.inv3x3_atoms(want_H)
    want_UB = [[sum((want_R[i][l] * Hinv[l][j] for l in range(3)), vn.const(0)) for j in range(3)] for i in range(3)]
    want_ubi, ubkey = vn.inv3x3_atoms(want_UB)

    # ---- C kernels
    kernels = [("score", "k"), ("score_and_refine", "k"), ("score_and_assign", "k"), ("refine_assigned", "k")]
    for fname, iv in kernels:
        f, paths = sym_kernel(R, tus, fname, {iv: "k"})
        pn = [p.name for p in f.params]
        # rename this kernel's parameter names into the reference names
        ren = {}
        ubi_n, gv_n = pn[0], pn[1]
        tol_n = [p for p in pn if p == "tol"]

        def norm(r):
            return r
        ok_any = False
        for path in paths:
            if fname == "refine_assigned":
                break
            c = find_tol_cond(path, "tol")
            if c is None:
                continue
            op, lhs, pol, text, line = c
            ok_any = True
            if pol is False:
                continue
            same = vn.equal(lhs, E)
            R.check(same, r3n, CFILE, line, fname, "error compared with tol^2: %s" % text,
                    "the compared quantity is not sum_j (h_j - rnd(h_j))^2 with h = ubi.g (row j of ubi times the "
                    "g-vector): differs from the definition shared with the other kernels", desc="%s: E == E_ref" % fname)
            R.check(op == "<", r3n, CFILE, line, fname, "comparison operator '%s' in %s" % (op, text),
                    "the tolerance test is not the strict '<' used by the Python reference (np.less)")
        if fname != "refine_assigned":
            R.check(ok_any, r3n, CFILE, f.line, fname, "a test '<error> < tol*tol'",
                    "no comparison of the error with tol*tol found on any path")
        # counts
        if fname == "score":
            for path in paths:
                c = find_tol_cond(path, "tol")
                if c is None:
                    continue
                want = 1 if c[2] else 0
                R.check(path.ret is not None and vn.equal(path.ret, vn.const(want)), r3n, CFILE, f.line, fname,
                        "count after one generic peak (%s) = %s" % ("selected" if c[2] else "rejected", path.ret),
                        "the returned count is not the number of selected peaks")
        if fname in ("score_and_refine", "refine_assigned"):
            r4_kernel(R, f, paths, fname, E, want_ubi, pn, r4n)

    # ---- Python references
    m = pyfacts.module(R, "ImageD11/indexing.py")
    I = vn_py.Interp({"indexing": m})
    UBI = np.array([[vn.atom("ubi[%d][%d]" % (i, j)) for j in range(3)] for i in range(3)], dtype=object)
    GV = np.array([[vn.atom("gv[k][%d]" % c) for c in range(3)]], dtype=object)
    d = I.call("indexing", "calc_drlv2", UBI, GV)
    ok, why = vn_py.same(d, np.array([E], dtype=object))
    R.check(ok, r3n, m.rel, m.func("calc_drlv2").lineno, "calc_drlv2", "calc_drlv2(UBI, gv) == E_ref",
            "the Python reference error differs from the kernels' definition: " + why)
    for qual in ("refine", "indexer.refine"):
        fn = m.func(qual)
        less = [c for c in ast.walk(fn) if isinstance(c, ast.Call) and (pyfacts.dotted(c.func) or "").split(".")[-1]
                in ("less", "less_equal", "greater", "greater_equal") and len(c.args) == 2 and "drlv2" in src(c.args[0])]
        R.shape(bool(less), r3n, m.rel, qual, "the np.less / np.greater selection on drlv2")
        R.check(all((pyfacts.dotted(c.func) or "").endswith(".less") for c in less), r3n, m.rel, fn.lineno, qual, "selection %s" % [src(c) for c in less],
                "the reference must select with np.less(drlv2, <squared tolerance>)")
        # the second argument is the squared tolerance: either 'tol' after 'tol = tol * tol', or a name / expression that resolves to tol * tol
        sq = [a for a in ast.walk(fn) if isinstance(a, ast.Assign) and src(a.targets[0]) == "tol" and src(a.value).replace(" ", "") == "tol*tol"]
        for c in less:
            a1 = src(c.args[1])
            res = pyfacts.resolved_src(fn, c.args[1]).replace(" ", "").replace("float(", "(").replace("(", "").replace(")", "")
            squared_name = (a1 == "tol" and len(sq) == 1 and c.lineno > sq[0].lineno)
            squared_expr = (a1 != "tol" and res in ("tol*tol", "tol**2", "self.hkl_tol*self.hkl_tol") and not sq)
            R.check(squared_name or squared_expr, r3n, m.rel, c.lineno, qual, "np.less(drlv2, %s) with %s == tol*tol" % (a1, a1),
                    "the tolerance compared with the squared error is not tol squared exactly once (resolves to '%s')" % res)
    # normal equations of the Python references (tolerant interpretation, one generic selected peak)
    vn_py.INV_MODE[0] = "atoms"
    try:
        for qual in ("refine", "indexer.refine"):
            fn = m.func(qual)
            It = vn_py.Interp({"indexing": m}, tolerant=True, generic_loops={"ind": [0]})
            if qual == "refine":
                out = It.call("indexing", qual, UBI, GV, vn.atom("tol"))
            else:
                obj = vn_py.SymObject((m, m.cls("indexer")), gv=GV, hkl_tol=vn.atom("tol"), ra=vn_py.Poison("ring assignment"))
                out = It.call_fn(m, fn, [obj, UBI], {})
            want = np.array(want_ubi, dtype=object)
            if isinstance(out, vn_py.Poison) or out is None:
                R.fail("C06.R4/C08.R7: could not value-number %s: %s" % (qual, It.skipped[-3:]))
            ok, why = vn_py.same(out, want)
            R.check(ok, r4n, m.rel, fn.lineno, qual, "returned matrix == inv(R . inv(H)), R = g h^T, H = h h^T",
                    "the Python reference's refined matrix differs from (sum g h^T)(sum h h^T)^-1 inverted: " + why)
    finally:
        vn_py.INV_MODE[0] = "explicit"


def r4_kernel(R, f, paths, fname, E, want_ubi, pn, r4n="C06.R4"):
    ubi_n = pn[0]
    good = 0
    for path in paths:
        wrote = ubi_n in path.out and path.out[ubi_n]
        # selected peak: for score_and_refine the tolerance test true; for refine_assigned label equality
        selected = None
        inv_fail = False
        for op, a, b, pol, text, line in path.conds:
            if fname == "score_and_refine" and op in ("<", "<=") and vn.equal(b, vn.atom("tol") * vn.atom("tol")):
                selected = pol
            if fname == "refine_assigned" and op in ("!=", "==") and "label" in text:
                selected = (pol if op == "==" else not pol)
            if "inverse3x3" in text or any(isinstance(x, tuple) and x and x[0] == "inv3x3_status" for r in (a, b) if hasattr(r, "atoms") for x in r.atoms()):
                # the status is 0 on success: 'status == 0' taken, or 'status != 0' not taken, is the success branch
                zero = [r for r in (a, b) if hasattr(r, "is_const") and r.is_const() and r.const_value() == 0]
                if op in ("==", "!=") and zero:
                    success = (op == "==") == bool(pol)
                    inv_fail = inv_fail or not success
                elif not pol:
                    inv_fail = True
        if wrote:
            if inv_fail:
                R.violation(r4n, CFILE, f.line, fname, "store to ubi on path %s" % [(c[4], c[3]) for c in path.conds],
                            "ubi is overwritten on a path where a 3x3 inversion reported failure")
                continue
            if not selected:
                continue    # H = 0 in the model: the real inverse3x3 fails there (R2 covers the guard)
            good += 1
            got = [[path.out[ubi_n].get((i, j)) for j in range(3)] for i in range(3)]
            if any(x is None for row in got for x in row):
                R.check(False, r4n, CFILE, f.line, fname, "all nine ubi cells written", "only part of ubi is written back")
                continue
            ok, why = vn_py.same(np.array(got, dtype=object), np.array(want_ubi, dtype=object))
            R.check(ok, r4n, CFILE, f.line, fname, "ubi := inv3x3(R . inv3x3(H)) with R[i][j] += rnd(h_j) g_i, H[i][j] += rnd(h_i) rnd(h_j)",
                    "the refined matrix is not (sum g h^T)(sum h h^T)^-1 inverted with the shared index order: " + why)
        # outputs n and mean on every path
        outs = {k: v for k, v in path.out.items() if k != ubi_n}
        if selected is not None and len(outs) >= 2:
            names = [p for p in pn if p in outs]
            n_out = outs[names[0]].get((0,))
            m_out = outs[names[1]].get((0,))
            wantn = vn.const(1 if selected else 0)
            wantm = E if selected else vn.const(0)
            R.check(n_out is not None and vn.equal(n_out, wantn) and m_out is not None and vn.equal(m_out, wantm), r4n, CFILE,
                    f.line, fname, "outputs after one generic peak (%s): n=%s mean=%s" % ("selected" if selected else "not selected", n_out, vn_py._short(m_out) if m_out is not None else None),
                    "count / mean squared error returned do not equal the number of selected peaks and sum/n")
    R.check(good >= 1, r4n, CFILE, f.line, fname, "a path that writes the refined matrix", "no path writes ubi")


# --------------------------------------------------------------------------------------------------
def r5(R, tus):
    R.rule("C06.R5", "round-to-nearest trick: verify_rounding asserted at import; no value-changing FP flag in setup.py:copt")
    m = pyfacts.module(R, "ImageD11/cImageD11.py")
    found = False
    for n in ast.walk(m.tree):
        if isinstance(n, ast.Assert) and "verify_rounding" in src(n.test):
            if m.enclosing_function(n) is None:
                found = True
                t = n.test
                ok = isinstance(t, ast.Compare) and isinstance(t.ops[0], ast.Eq) and src(t.comparators[0]) == "0"
                R.check(ok, "C06.R5", m.rel, n.lineno, "<module>", src(n)[:80], "the import-time rounding self check must assert == 0")
    R.check(found, "C06.R5", m.rel, 1, "<module>", "assert verify_rounding(...) == 0 at import",
            "the import-time self check of the magic-number rounding is gone")
    opts = cfront.copts(R.root)
    bad = []
    for comp, flags in opts.items():
        for fl in flags:
            if fl.lower() in ("-ffast-math", "-ofast", "-funsafe-math-optimizations", "-fassociative-math", "/fp:fast", "-ffp-contract=fast") \
                    or fl.lower().startswith("-frounding-math=") or fl.lower() in ("-fno-signed-zeros",):
                bad.append((comp, fl))
    R.check(not bad, "C06.R5", "setup.py", 1, "copt", "compile flags %s" % opts,
            "flag(s) %s let the compiler simplify (x + M) - M to x: hkl would no longer be rounded" % bad)
    # the macro itself: every kernel rounds through the same construct
    tusf = tus[CFILE]
    n = 0
    for f in cfront.all_funcs(tus):
        for st, x in cfront.all_exprs(f.body):
            if x.k == "bin" and crules.is_rnd(x) is not None:
                n += 1
    R.check(n >= 12, "C06.R5", CFILE, 1, "closest.c", "%d uses of the (x + MAGIC) - MAGIC construct" % n,
            "the magic-number rounding construct is no longer recognised (expected >= 12 uses)")
    # verify_rounding compares fast and safe variants
    vr = cfront.find_func(tus, "verify_rounding", CFILE)
    bodies = [vr]
    for st, x in cfront.all_exprs(vr.body):
        if x.k == "call":
            g = next((h for h in cfront.all_funcs(tus) if h.name == x.name and h.file == CFILE), None)
            if g is not None and g is not vr and g not in bodies:
                bodies.append(g)        # one level of local helpers
    calls = [x.name for b in bodies for st, x in cfront.all_exprs(b.body) if x.k == "call"]
    rn = sum(1 for b in bodies for st, x in cfront.all_exprs(b.body) if x.k == "bin" and crules.is_rnd(x) is not None)
    R.check("conv_double_to_int_safe" in calls and rn >= 1, "C06.R5", CFILE, vr.line, vr.name,
            "verify_rounding compares the fast construct with conv_double_to_int_safe", "self check no longer compares the two roundings")


# --------------------------------------------------------------------------------------------------
def r7(R):
    """the Python reference (indexing.calc_drlv2 / refine / getind) and the kernels take g-vectors one per ROW, (n, 3).  A layout guessed
    from the shape is ambiguous for exactly three peaks: the reference then scores other vectors than the kernels."""
    import ast
    from engine import pyfacts
    R.rule("C06.R7", "indexing.py: the reference functions do not choose between the (n, 3) and (3, n) layouts of the g-vectors by testing a "
                     "shape entry against 3 (ambiguous for exactly three peaks)")
    rel = "ImageD11/indexing.py"
    m = pyfacts.module(R, rel)
    n = 0
    for q, fn in sorted(m.funcs.items()):
        n += 1
        for st, a in pyfacts.shape_sniffs(fn)[:1]:
            R.violation("C06.R7", rel, st.lineno, q, "if %s: %s is transposed" % (pyfacts.src(st.test)[:50], a),
                        "the layout of '%s' is guessed from its shape: three g-vectors make a (3, 3) array in both layouts, so for a peak list of "
                        "exactly three the reference computes the error of other vectors than the C kernels score" % a)
        R.inst("C06.R7", "%s:%s no layout guess" % (rel, q))
    R.floor("C06.R7", 20)
