"""C16  Symmetry groups are proper point groups; orientation reduction is canonical.

Decided exhaustively (finite): P1 every named group, generated in exact integer arithmetic from the
generator strings in the source, is closed, contains the identity, has only det +1 operators, has the
order of the proper point group, and preserves the generic conforming metric under the way
find_uniq_u applies it (M G M^T == G as polynomial identity).
Structural: R2 registry, R3 the reduction enumerates the whole orbit of the *input* with a strict
maximum, R4 users hand a generated group to the reduction.
Assumed: group.makegroup computes the closure (np.allclose membership is exact on integer matrices).
Not decided: ties of the trace (measure zero), numerical effect on indexing.
"""
import ast
import re
import itertools

import numpy as np
from fractions import Fraction as Fr

from engine import pyfacts
from engine.poly import Poly
from engine.pyfacts import src

PID = "C16"
REL = "ImageD11/sym_u.py"

ORDERS = {"cubic": 24, "hexagonal": 12, "trigonal": 6, "rhombohedralP": 6, "tetragonal": 8, "orthorhombic": 4,
          "monoclinic_c": 2, "monoclinic_a": 2, "monoclinic_b": 2, "triclinic": 1}


def P(x):
    return Poly.atom(x)


def metric(system):
    a2, b2, c2, t, g = P("a2"), P("b2"), P("c2"), P("t"), P("g")
    z = Poly()
    half = a2.scale(Fr(-1, 2))
    if system == "cubic":
        return [[a2, z, z], [z, a2, z], [z, z, a2]]
    if system in ("hexagonal", "trigonal"):
        return [[a2, half, z], [half, a2, z], [z, z, c2]]
    if system == "rhombohedralP":
        return [[a2, t, t], [t, a2, t], [t, t, a2]]
    if system == "tetragonal":
        return [[a2, z, z], [z, a2, z], [z, z, c2]]
    if system == "orthorhombic":
        return [[a2, z, z], [z, b2, z], [z, z, c2]]
    if system == "monoclinic_c":
        return [[a2, g, z], [g, b2, z], [z, z, c2]]
    if system == "monoclinic_a":
        return [[a2, z, z], [z, b2, g], [z, g, c2]]
    if system == "monoclinic_b":
        return [[a2, z, g], [z, b2, z], [g, z, c2]]
    if system == "triclinic":
        return [[a2, P("g12"), P("g13")], [P("g12"), b2, P("g23")], [P("g13"), P("g23"), c2]]
    raise KeyError(system)


def linear_form(text):
    """'x-y' -> (1,-1,0) coefficients of x,y,z ; constant part must be 0.  Parsed with ast, no eval."""
    node = ast.parse(text.strip(), mode="eval").body

    def ev(n):
        if isinstance(n, ast.Name) and n.id in "xyz":
            return tuple(Fr(1) if n.id == c else Fr(0) for c in "xyz") + (Fr(0),)
        if isinstance(n, ast.Constant) and isinstance(n.value, (int, float)):
            return (Fr(0), Fr(0), Fr(0), Fr(str(n.value)))
        if isinstance(n, ast.UnaryOp) and isinstance(n.op, (ast.USub, ast.UAdd)):
            v = ev(n.operand)
            return tuple(-x for x in v) if isinstance(n.op, ast.USub) else v
        if isinstance(n, ast.BinOp) and isinstance(n.op, (ast.Add, ast.Sub)):
            a, b = ev(n.left), ev(n.right)
            return tuple(x + y if isinstance(n.op, ast.Add) else x - y for x, y in zip(a, b))
        if isinstance(n, ast.BinOp) and isinstance(n.op, ast.Mult):
            a, b = ev(n.left), ev(n.right)
            if all(x == 0 for x in a[:3]):
                return tuple(a[3] * y for y in b)
            if all(x == 0 for x in b[:3]):
                return tuple(b[3] * y for y in a)
        raise ValueError("not a linear form: %s" % text)
    return ev(node)


def m_from_string_model(s):
    """the matrix m_from_string builds: row i = f(e_i) - f(0) where f maps (x,y,z) to the three components"""
    comps = [linear_form(c) for c in s.split(",")]
    if len(comps) != 3:
        raise ValueError("operator string needs three components: %r" % s)
    rows = []
    for i in range(3):
        rows.append(tuple(comps[k][i] for k in range(3)))     # image of e_i, component k (translation part cancels)
    return tuple(rows)


def matmul(a, b):
    return tuple(tuple(sum(a[i][k] * b[k][j] for k in range(3)) for j in range(3)) for i in range(3))


def det(m):
    return (m[0][0] * (m[1][1] * m[2][2] - m[1][2] * m[2][1]) - m[0][1] * (m[1][0] * m[2][2] - m[1][2] * m[2][0])
            + m[0][2] * (m[1][0] * m[2][1] - m[1][1] * m[2][0]))


TRANSPOSED = False
IDENT = tuple(tuple(Fr(int(i == j)) for j in range(3)) for i in range(3))


def closure(gens, limit=200):
    grp = [IDENT]
    for g in gens:
        if g not in grp:
            grp.append(g)
    changed = True
    while changed:
        changed = False
        for a, b in itertools.product(list(grp), repeat=2):
            c = matmul(a, b)
            if c not in grp:
                grp.append(c)
                changed = True
                if len(grp) > limit:
                    return None
    return grp


def run(R):
    R.level = "proof"
    R.trusted = ["CPython ast", "exact integer/rational matrix arithmetic", "engine/poly.py polynomial identities"]
    m = pyfacts.module(R, REL)
    if R.want("C16.P1"):
        p1(R, m)
    if R.want("C16.R2"):
        r2(R, m)
    if R.want("C16.R3"):
        r3(R, m)
    if R.want("C16.R4"):
        r4(R)
    if R.want("C16.R6"):
        r6(R)
    if R.want("C16.R7"):
        r7(R)
    if R.want("C16.R5"):
        # the users of the reduction (refinegrains.makeuniq, point_by_point) install the canonical matrix through grain.set_ubi:
        # a direct write of <grain>.ubi leaves U / UB / B / Rod of the previous orbit member in the caches.  Shared with C04.R1.
        from engine import report
        from rules import c04
        c04.r1(report.Alias(R, {"C04.R1": "C16.R5"}))


def r7(R):
    """point_by_point.idxpoint hands back (npks, nuniq, UBI) triples; the maps built from them compare UBIs of neighbouring pixels as
    matrices, so every UBI leaving the function is the canonical orbit member: it is the value of sym_u.find_uniq_u(...), or an
    element of ind.ubis at a point dominated by  ind.ubis = [sym_u.find_uniq_u(..) for ..]  (all of them reduced at once)."""
    PBP = "ImageD11/sinograms/point_by_point.py"
    R.rule("C16.R7", "point_by_point.idxpoint: every orientation it returns - on the one-candidate early return as well as from the sorted loop - "
                     "has been through sym_u.find_uniq_u (directly, or as an element of ind.ubis after the list was reduced as a whole)")
    m = pyfacts.module(R, PBP)
    fn = pyfacts.normalise_loops(m.ifunc("idxpoint"))     # X = []; for ..: X.append(E)  reads as  X = [E for ..]
    cfg = pyfacts.PyCFG(fn)

    def is_reduce(e):
        return isinstance(e, ast.Call) and (pyfacts.dotted(e.func) or "").split(".")[-1] == "find_uniq_u"

    def comp_of(a):
        v = pyfacts.resolved(fn, a.value) if isinstance(a.value, ast.Name) else a.value
        return isinstance(v, ast.ListComp) and is_reduce(v.elt)
    whole = [a for a in ast.walk(fn) if isinstance(a, ast.Assign) and len(a.targets) == 1 and src(a.targets[0]) == "ind.ubis" and comp_of(a)]
    other = [a for a in ast.walk(fn) if isinstance(a, (ast.Assign, ast.AugAssign)) and any(src(t) == "ind.ubis" for t in (a.targets if isinstance(a, ast.Assign) else [a.target]))
             and a not in whole]
    outs = []
    for n_ in ast.walk(fn):
        tups = []
        if isinstance(n_, ast.Return) and isinstance(n_.value, (ast.List, ast.Tuple)):
            tups = [t for t in n_.value.elts if isinstance(t, ast.Tuple)]
        elif isinstance(n_, ast.Expr) and isinstance(n_.value, ast.Call) and isinstance(n_.value.func, ast.Attribute) and n_.value.func.attr == "append" \
                and n_.value.args and isinstance(n_.value.args[0], ast.Tuple):
            tups = [n_.value.args[0]]
        for t in tups:
            if len(t.elts) == 3:
                outs.append((n_, t.elts[2]))
    R.shape(len(outs) >= 2, "C16.R7", PBP, "idxpoint", "the (ntotal, nuniq, ubi) triples it returns / appends")
    for st, e in outs:
        if "ubi" not in src(e).lower():
            continue          # np.eye(3) for 'nothing found'
        nd = cfg.node_of(st)
        R.shape(nd is not None, "C16.R7", PBP, "idxpoint", "the statement '%s' in the flow graph" % src(st)[:50])
        ok = is_reduce(e)
        if not ok and src(e).startswith("ind.ubis"):
            ok = any(cfg.node_of(w) is not None and cfg.dominates(cfg.node_of(w), nd) for w in whole) and \
                not any(cfg.node_of(o) is not None and any(cfg.dominates(cfg.node_of(w), cfg.node_of(o)) for w in whole if cfg.node_of(w) is not None) for o in other)
        elif not ok:
            R.shape(False, "C16.R7", PBP, "idxpoint", "where the returned orientation %s comes from" % src(e)[:40])
        R.check(ok, "C16.R7", PBP, st.lineno, "idxpoint", "returned orientation %s" % src(e)[:50],
                "this orientation leaves idxpoint as the indexer found it, not as the canonical member of its symmetry orbit: pixels of one "
                "grain get different (equivalent) matrices depending on how many candidates the pixel had, and comparing UBIs across the "
                "map no longer recognises them as the same orientation")
    R.floor("C16.R7", 2)


def generators_of(m, name):
    fn = m.func(name)
    calls = [c for c in ast.walk(fn) if isinstance(c, ast.Call) and pyfacts.dotted(c.func) == "generate_group"]
    if len(calls) != 1:
        raise pyfacts.AnalysisError("sym_u.%s: expected exactly one generate_group(...) call" % name)
    gens = []
    for a in calls[0].args:
        if not (isinstance(a, ast.Constant) and isinstance(a.value, str)):
            raise pyfacts.AnalysisError("sym_u.%s: generator is not a string literal" % name)
        gens.append(a.value)
    return fn, gens


def _mfs_shape(R, m, mfs):
    """fallback: the row convention of m_from_string from the shape of its loop"""
    loops = [n for n in ast.walk(mfs) if isinstance(n, ast.For)]
    R.shape(len(loops) == 1 and isinstance(loops[0].iter, ast.List), "C16.P1", REL, "m_from_string", "the loop over the three unit vectors")
    basis = ast.literal_eval(loops[0].iter)
    R.check(basis == [[1, 0, 0], [0, 1, 0], [0, 0, 1]], "C16.P1", REL, mfs.lineno, "m_from_string", "basis vectors visited in order x,y,z: %s" % basis,
            "rows of the operator matrix are no longer the images of the basis vectors in x,y,z order")
    app = [c for c in ast.walk(loops[0]) if isinstance(c, ast.Call) and isinstance(c.func, ast.Attribute) and c.func.attr == "append"]
    R.shape(len(app) == 1 and len(app[0].args) == 1, "C16.P1", REL, "m_from_string", "one row appended per basis vector")
    row = pyfacts.resolved(mfs, app[0].args[0], 4, keep=("s",))

    def unwrap(n):
        while isinstance(n, ast.Call) and pyfacts.dotted(n.func) in ("np.array", "numpy.array", "np.asarray", "numpy.asarray") and len(n.args) == 1:
            n = n.args[0]
        return n
    lhs, rhs = (unwrap(row.left), unwrap(row.right)) if isinstance(row, ast.BinOp) and isinstance(row.op, ast.Sub) else (None, None)
    tv = [x.id for x in ast.walk(loops[0].target) if isinstance(x, ast.Name)]
    okrow = isinstance(lhs, ast.Call) and isinstance(rhs, ast.Call) and src(lhs.func) == src(rhs.func) and [src(a) for a in lhs.args] == tv \
        and [src(a) for a in rhs.args] == ["0", "0", "0"] and "lambda x, y, z" in src(lhs.func).replace("x,y,z", "x, y, z")
    R.check(okrow, "C16.P1", REL, mfs.lineno, "m_from_string", "row i = f(e_i) - f(0)  (%s)" % src(row)[:120], "the translation part is no longer removed from each row")
    rets = [r for r in ast.walk(mfs) if isinstance(r, ast.Return)]
    R.shape(len(rets) == 1 and app, "C16.P1", REL, "m_from_string", "the single return of the operator matrix")
    lst = src(app[0].func.value) if app else "?"
    rv = src(rets[0].value).replace(" ", "")
    transposed = None
    if rv in ("np.array(%s)" % lst, "np.asarray(%s)" % lst, "numpy.array(%s)" % lst):
        transposed = False
    elif rv in ("np.array(%s).T" % lst, "np.transpose(np.array(%s))" % lst, "np.array(%s).transpose()" % lst, "np.transpose(%s)" % lst):
        transposed = True
    R.shape(transposed is not None, "C16.P1", REL, "m_from_string", "the returned expression %s (rows of images, or its transpose)" % rv)
    R.extra["m_from_string_convention"] = "columns are images of basis vectors" if transposed else "rows are images of basis vectors"
    global TRANSPOSED
    TRANSPOSED = transposed


def p1(R, m):
    R.rule("C16.P1", "each named group: closed under multiplication, identity present, all det +1, order of the proper point "
                     "group, and M.G.M^T == G for the generic conforming metric with M applied as find_uniq_u applies it (o . UBI)")
    # the operator matrix of a generator string: m_from_string is evaluated by the value-numbering interpreter (exact integer /
    # rational arithmetic over the function's own source; eval("lambda x,y,z: ...") becomes a lambda closure of the interpreter).
    # When the interpreter cannot follow the function, the loop-shape recognition below decides the convention instead.
    from engine import vn_py

    def _eval(text, *a):
        node = ast.parse(str(text).strip(), mode="eval").body
        if not isinstance(node, ast.Lambda):
            raise vn_py.Unsupported("eval of something else than a lambda")
        return ("lambda", m, node, {})
    interp = vn_py.Interp({"sym_u": m}, extra_globals={"eval": _eval})

    def operator(sgen):
        r = interp.call("sym_u", "m_from_string", sgen)
        a_ = np.asarray(r, dtype=object)
        if a_.shape != (3, 3):
            raise vn_py.Unsupported("m_from_string returned shape %s" % (a_.shape,))
        out = []
        for i in range(3):
            row = []
            for j in range(3):
                c = vn_py.concrete(a_[i, j])
                if c is None:
                    raise vn_py.Unsupported("symbolic entry in the operator of %r" % sgen)
                row.append(Fr(c))
            out.append(tuple(row))
        return tuple(out)
    mfs = m.func("m_from_string")
    use_interp = True
    try:
        probe = operator("-y,x-y,z")
        tprobe = operator("x+1,y+2,z+3")
    except (vn_py.Unsupported, pyfacts.AnalysisError, SyntaxError, RecursionError) as ex:
        use_interp = False
        R.note("C16.P1: m_from_string is not followed by the interpreter (%s): convention decided from its loop shape" % str(ex)[:100])
    if use_interp:
        R.check(tprobe == IDENT, "C16.P1", REL, mfs.lineno, "m_from_string", "translation part removed: m_from_string('x+1,y+2,z+3') == identity (got %s)" % (
            [[str(x) for x in r_] for r_ in tprobe],), "the translation part of an operator string leaks into the rotation matrix")
        R.extra["m_from_string_convention"] = "rows are images of basis vectors" if probe == m_from_string_model("-y,x-y,z") else \
            ("columns are images of basis vectors" if probe == tuple(zip(*m_from_string_model("-y,x-y,z"))) else "other")
        R.inst("C16.P1", "m_from_string evaluated by the interpreter for every generator string (%s)" % R.extra["m_from_string_convention"])
    else:
        _mfs_shape(R, m, mfs)
    fu = m.func("find_uniq_u")
    opcalls = [c for c in ast.walk(fu) if isinstance(c, ast.Call) and isinstance(c.func, ast.Attribute) and c.func.attr == "op"]
    R.shape(len(opcalls) >= 1, "C16.P1", REL, "find_uniq_u", "the grp.op(o, u) application")
    gop = m.func("group.op")
    dots = [c for c in ast.walk(gop) if isinstance(c, ast.Call) and (pyfacts.dotted(c.func) or "").endswith("dot")]
    left = len(dots) == 1 and [src(a) for a in dots[0].args] == [a.arg for a in gop.args.args[1:3]]
    R.check(left, "C16.P1", REL, gop.lineno, "group.op", "op(x, y) = dot(x, y)", "group multiplication order changed")
    n_ob = 0
    for name in sorted(ORDERS):
        fn, gens = generators_of(m, name)
        try:
            mats = [operator(g) if use_interp else m_from_string_model(g) for g in gens]
            if TRANSPOSED and not use_interp:
                mats = [tuple(tuple(mm[j][i] for j in range(3)) for i in range(3)) for mm in mats]
        except (ValueError, vn_py.Unsupported) as ex:
            R.fail("C16.P1: %s" % ex)
        grp = closure(mats)
        R.check(grp is not None, "C16.P1", REL, fn.lineno, name, "generators %s close to a finite group" % gens, "the generators do not close (more than 200 elements)")
        if grp is None:
            continue
        R.check(all(all(x.denominator == 1 for row in g for x in row) for g in grp), "C16.P1", REL, fn.lineno, name, "integer operators", "non-integer operator in the crystal basis")
        R.check(IDENT in grp, "C16.P1", REL, fn.lineno, name, "identity present", "no identity")
        bad = [g for g in grp if det(g) != 1]
        R.check(not bad, "C16.P1", REL, fn.lineno, name, "all %d operators have det +1" % len(grp),
                "the group contains an improper operation (det %s): reduced orientations can come out left-handed" % (det(bad[0]) if bad else ""))
        R.check(len(grp) == ORDERS[name], "C16.P1", REL, fn.lineno, name, "order %d (expected %d) from generators %s" % (len(grp), ORDERS[name], gens),
                "the group does not have the order of the proper point group of this lattice system")
        # inverses present (follows from finiteness+closure, checked anyway)
        inv_ok = all(any(matmul(g, h) == IDENT for h in grp) for g in grp)
        R.check(inv_ok, "C16.P1", REL, fn.lineno, name, "every operator has its inverse in the group", "missing inverse")
        G = metric(name)
        worst = None
        for g in grp:
            Mp = [[Poly.const(x) for x in row] for row in g]
            MG = [[sum((Mp[i][k] * G[k][j] for k in range(3)), Poly()) for j in range(3)] for i in range(3)]
            MGMt = [[sum((MG[i][k] * Mp[j][k] for k in range(3)), Poly()) for j in range(3)] for i in range(3)]
            if any(MGMt[i][j] != G[i][j] for i in range(3) for j in range(3)):
                worst = (g, MGMt)
                break
        n_ob += 1
        if worst is None:
            R.inst("C16.P1", "%s: M.G.M^T == G for all %d operators (generic %s metric)" % (name, len(grp), name))
        else:
            g, mg = worst
            R.check(False, "C16.P1", REL, fn.lineno, name, "metric preservation of %s" % gens,
                    "operator %s maps the conforming cell onto a different cell (metric %s instead of %s): find_uniq_u returns a "
                    "matrix that is not in the symmetry orbit of its input" % ([[int(x) for x in r] for r in g],
                                                                              [[repr(x) for x in r] for r in mg], [[repr(x) for x in r] for r in G]))
    R.floor("C16.P1", 60, "obligations")


def r2(R, m):
    R.rule("C16.R2", "every name in getgroup's list is a module-level function; generate_group caches by the generator tuple")
    gg = m.func("getgroup")
    lists = [n for n in ast.walk(gg) if isinstance(n, ast.List) and all(isinstance(e, ast.Constant) and isinstance(e.value, str) for e in n.elts)]
    R.shape(len(lists) == 1, "C16.R2", REL, "getgroup", "the list of group names")
    names = [e.value for e in lists[0].elts]
    for nme in names:
        R.check(nme in m.funcs and m.funcs[nme] in m.tree.body, "C16.R2", REL, gg.lineno, "getgroup", "name %r resolves to a module-level function" % nme,
                "getgroup(%r) would raise KeyError" % nme)
    R.check(set(names) == set(ORDERS), "C16.R2", REL, gg.lineno, "getgroup", "registry %s" % sorted(names), "registry and the checked group table differ: %s" % sorted(set(names) ^ set(ORDERS)))
    gen = m.ifunc("generate_group", keep=("m_from_string",))     # a builder helper reads as if written here
    R.shape(gen.args.vararg is not None, "C16.R2", REL, "generate_group", "generate_group(*generators)")
    va = gen.args.vararg.arg
    keys = [src(x.slice) for x in ast.walk(gen) if isinstance(x, ast.Subscript) and src(x.value) == "symcache"]
    tests = [src(c.left) for c in ast.walk(gen) if isinstance(c, ast.Compare) and len(c.ops) == 1 and isinstance(c.ops[0], (ast.In, ast.NotIn)) and src(c.comparators[0]) == "symcache"]
    R.shape(bool(keys) and bool(tests), "C16.R2", REL, "generate_group", "look-ups and stores in symcache")
    stores = [x for x in ast.walk(gen) if isinstance(x, ast.Subscript) and src(x.value) == "symcache" and isinstance(x.ctx, ast.Store)]
    loops = [l for l in ast.walk(gen) if isinstance(l, ast.For) and src(l.iter) == va and isinstance(l.target, ast.Name)]
    added = [c for l in loops for c in ast.walk(l) if isinstance(c, ast.Call) and isinstance(c.func, ast.Attribute) and c.func.attr == "additem"
             and any(isinstance(x, ast.Name) and x.id == l.target.id for x in ast.walk(c))]
    R.check(all(k == va for k in keys + tests) and bool(stores) and bool(added) and not any(isinstance(x, (ast.Break, ast.Continue)) for l in loops for x in ast.walk(l)),
            "C16.R2", REL, gen.lineno, "generate_group", "cache keyed by the full generator tuple; every generator added",
            "cache key or generator loop changed: different groups could share a cache entry")
    # the group enters the cache only when it is complete: no additem() on the cached object can follow the store on any path.  A group
    # published first and filled afterwards is handed, partly built, to any other thread that asks in between, and stays in the cache
    # half built if the construction is interrupted
    cfgg = pyfacts.PyCFG(gen)
    import networkx as nx
    for stx in stores:
        sn = cfgg.node_of(pyfacts.containing_stmt(stx))
        R.shape(sn is not None, "C16.R2", REL, "generate_group", "the statement that stores into symcache")
        later = nx.descendants(cfgg.g, sn.id)
        after = [c for c in added if cfgg.node_of(pyfacts.containing_stmt(c)) is not None and cfgg.node_of(pyfacts.containing_stmt(c)).id in later]
        R.check(not after, "C16.R2", REL, stx.lineno, "generate_group", "symcache[...] is stored after the last additem()",
                "the group object is put into the cache before its operators are generated (additem at line %s runs after the store): a second "
                "thread asking for the same group meanwhile, or any later call after an interrupted first construction, gets a partial group "
                "(not closed, wrong order) and reduces with it silently" % (after[0].lineno if after else ""))


def r3(R, m):
    R.rule("C16.R3", "find_uniq_u / find_uniq_hkls visit every operator, always apply it to the input (not the running best), keep "
                     "with a strict '>' and fall back to the input")
    for name, inp in (("find_uniq_u", None), ("find_uniq_hkls", None)):
        fn = m.ifunc(name, keep=("op",))     # helpers inlined; while / index loops read as 'for <item> in <sequence>'
        arg0 = fn.args.args[0].arg
        grp = fn.args.args[1].arg
        params = tuple(a.arg for a in fn.args.args)
        loops = [n for n in ast.walk(fn) if isinstance(n, ast.For) and pyfacts.resolved_src(fn, n.iter, 3, keep=params).replace(" ", "") == "%s.group" % grp]
        R.shape(len(loops) == 1, "C16.R3", REL, name, "the loop over %s.group" % grp)
        lp = loops[0]
        cfg = pyfacts.PyCFG(fn)
        cmp_all = [c for c in ast.walk(lp) if isinstance(c, ast.Compare)]
        # a 'continue' that only skips the update (it is taken on the outcome of the keep test itself) visits the operator all the same
        conts = [x for x in ast.walk(lp) if isinstance(x, ast.Continue)]
        inloop = set(id(x) for x in ast.walk(lp))
        harmless = len(cmp_all) == 1 and all(
            all(any(y is cmp_all[0] for y in ast.walk(t)) for t, _pol in cfg.guards(cfg.node_of(x)) if id(t) in inloop) and
            any(id(t) in inloop for t, _pol in cfg.guards(cfg.node_of(x))) for x in conts)
        R.check(not any(isinstance(x, (ast.Break, ast.Return)) for x in ast.walk(lp)) and (not conts or harmless),
                "C16.R3", REL, lp.lineno, name, "whole group visited (no break/continue/return)", "some operators are skipped")
        head = cfg.node_of(lp)
        early = [r for r in ast.walk(fn) if isinstance(r, ast.Return) and not cfg.dominates(head, cfg.node_of(r))]
        R.check(not early, "C16.R3", REL, early[0].lineno if early else fn.lineno, name, "every return is reached through the loop over the group",
                "the function can return without enumerating the orbit (early exit before the loop): inputs that satisfy the shortcut are "
                "returned unreduced, so two members of one orbit reduce to different matrices")
        opc = [c for c in ast.walk(lp) if isinstance(c, ast.Call) and isinstance(c.func, ast.Attribute) and c.func.attr == "op"]
        R.check(len(opc) == 1 and src(opc[0].args[0]) == src(lp.target) and src(opc[0].args[1]) == arg0, "C16.R3", REL, lp.lineno, name,
                "candidate = op(o, %s)" % arg0, "the operator is applied to something other than the input (e.g. the running best): the orbit is not enumerated")
        cmpn = [c for c in ast.walk(lp) if isinstance(c, ast.Compare)]
        R.shape(len(cmpn) == 1 and len(cmpn[0].ops) == 1, "C16.R3", REL, name, "the single keep test inside the loop")
        # the operator under which the running best is replaced: the comparison with the polarity it has on the way to the update
        # ('if not (a > b): continue' keeps under a > b as well)
        eff = type(cmpn[0].ops[0])
        _NEG = {ast.Gt: ast.LtE, ast.Lt: ast.GtE, ast.GtE: ast.Lt, ast.LtE: ast.Gt, ast.Eq: ast.NotEq, ast.NotEq: ast.Eq}
        upd = [a_ for a_ in ast.walk(lp) if isinstance(a_, ast.Assign) and len(a_.targets) == 1 and isinstance(a_.targets[0], ast.Name)
               and any(y is opc[0] or (isinstance(y, ast.Name) and False) for y in ast.walk(a_.value))]
        keepst = None
        for a_ in ast.walk(lp):
            if isinstance(a_, ast.Assign) and cfg.node_of(a_) is not None and any(any(y is cmpn[0] for y in ast.walk(t)) for t, _p in cfg.guards(cfg.node_of(a_))):
                keepst = a_
                break
        # (find_uniq_hkls keeps through np.where(mask, ...): no branch, the comparison is the mask as written)
        for t, pol in (cfg.guards(cfg.node_of(keepst)) if keepst is not None else []):
            if any(y is cmpn[0] for y in ast.walk(t)):
                nneg, cur = 0, t
                while isinstance(cur, ast.UnaryOp) and isinstance(cur.op, ast.Not):
                    nneg, cur = nneg + 1, cur.operand
                R.shape(cur is cmpn[0], "C16.R3", REL, name, "a keep test that is the comparison itself (possibly negated)")
                if (nneg % 2 == 1) == pol:
                    eff = _NEG.get(eff, eff)
        strict = eff in (ast.Gt, ast.Lt)
        R.check(strict, "C16.R3", REL, lp.lineno, name, "keep test %s" % [src(c) for c in cmpn], "the keep test must be a strict '>' against the best so far")
        new_side, old_side = (cmpn[0].left, cmpn[0].comparators[0]) if eff in (ast.Gt, ast.GtE) else (cmpn[0].comparators[0], cmpn[0].left)
        # the returned name is the running best; it starts as the input
        rets = [r for r in ast.walk(fn) if isinstance(r, ast.Return) and r.value is not None]
        R.shape(len(rets) == 1, "C16.R3", REL, name, "the single return")
        rnames = [x.id for x in ast.walk(rets[0].value) if isinstance(x, ast.Name) and x.id not in ("np", "numpy")]
        R.shape(len(rnames) == 1, "C16.R3", REL, name, "the returned running best")
        best = rnames[0]
        init = [a_ for a_ in fn.body if isinstance(a_, ast.Assign) and src(a_.targets[0]) == best]
        R.check(len(init) == 1 and src(init[0].value) in (arg0, "%s.copy()" % arg0) and init[0].lineno < lp.lineno, "C16.R3", REL, fn.lineno, name, "initial best = input",
                "the reduction does not start from the input")
        # the compared quantity of the candidate and the stored maximum are the same function
        if name == "find_uniq_u":
            f = fn.args.args[-1].arg
            cand = "%s.op(%s,%s)" % (grp, src(lp.target), arg0)
            rsl = lambda n_: pyfacts.resolved_src(fn, n_, 4, keep=params + (best, src(lp.target))).replace(" ", "")
            okn = rsl(new_side) == "%s(%s)" % (f, cand)
            oko = isinstance(old_side, ast.Name)
            if oko:
                defs_out = [a_ for a_ in fn.body if isinstance(a_, ast.Assign) and src(a_.targets[0]) == old_side.id]
                defs_in = [a_ for a_ in ast.walk(lp) if isinstance(a_, ast.Assign) and src(a_.targets[0]) == old_side.id]
                oko = len(defs_out) == 1 and src(defs_out[0].value).replace(" ", "") in ("%s(%s)" % (f, best), "%s(%s)" % (f, arg0)) \
                    and len(defs_in) == 1 and rsl(defs_in[0].value) == "%s(%s)" % (f, cand)
            R.check(okn and oko, "C16.R3", REL, fn.lineno, name, "score = %s(.) for both the start and the candidates" % f, "start and candidates are scored differently")


def r4(R):
    R.rule("C16.R4", "callers pass a generated group object (getgroup(name)() or a sym_u constructor call) to the reduction")
    n = 0
    for rel in pyfacts.library_files(R.root, R.tier):
        mm = pyfacts.module(R, rel)
        if "find_uniq_u" not in mm.text and "find_uniq_hkls" not in mm.text:
            continue
        if rel == REL:
            continue
        for c in ast.walk(mm.tree):
            if isinstance(c, ast.Call) and (pyfacts.dotted(c.func) or "").split(".")[-1] in ("find_uniq_u", "find_uniq_hkls") and len(c.args) >= 2:
                n += 1
                g = c.args[1]
                fn = mm.enclosing_function(c)
                okk = _is_group_expr(mm, fn, g)
                R.check(okk, "C16.R4", rel, c.lineno, mm.qualname(fn) if fn else "<module>", "%s(..., %s)" % (src(c.func), src(g)),
                        "the second argument is not a generated group object (a constructor function, a name string or a matrix list "
                        "would make the loop over .group fail or reduce with the wrong operators)")
    if n < 3:
        R.fail("C16.R4 found %d callers of the reduction, expected at least 3" % n)


def r6(R):
    R.rule("C16.R6", "outside sym_u the operators of a group (elements of <group>.group, integer matrices in the crystal basis) are only "
                     "ever multiplied from the left onto a UBI (rows = real-space lattice vectors); applied to U, U^T or UB they are not "
                     "the symmetry-equivalent orientations unless B commutes with them (cubic ... but not hexagonal / trigonal / rhombohedral)")
    nuse = 0
    for rel in pyfacts.library_files(R.root, R.tier):
        mm = pyfacts.module(R, rel)
        if ".group" not in mm.text or rel == REL:
            continue
        for fn in [f_ for f_ in ast.walk(mm.tree) if isinstance(f_, ast.FunctionDef)]:
            # names that stand for one operator or for the stacked operators of a group
            opnames = set()
            for n_ in ast.walk(fn):
                its = [(n_.target, n_.iter)] if isinstance(n_, ast.For) else \
                    ([(g_.target, g_.iter) for g_ in n_.generators] if isinstance(n_, (ast.ListComp, ast.GeneratorExp)) else [])
                for tgt, it in its:
                    if isinstance(it, ast.Attribute) and it.attr == "group" and isinstance(tgt, ast.Name):
                        opnames.add(tgt.id)
            def is_ops(e):
                if isinstance(e, ast.Name) and e.id in opnames:
                    return True
                if isinstance(e, ast.Attribute) and e.attr == "group":
                    return True
                if isinstance(e, ast.Call) and (pyfacts.dotted(e.func) or "").split(".")[-1] in ("array", "asarray") and e.args:
                    return is_ops(e.args[0])
                return False
            for c in ast.walk(fn):
                pair = None
                if isinstance(c, ast.Call) and (pyfacts.dotted(c.func) or "").split(".")[-1] in ("dot", "matmul") and len(c.args) == 2:
                    pair = (c.args[0], c.args[1])
                elif isinstance(c, ast.Call) and isinstance(c.func, ast.Attribute) and c.func.attr == "dot" and len(c.args) == 1:
                    pair = (c.func.value, c.args[0])
                elif isinstance(c, ast.BinOp) and isinstance(c.op, ast.MatMult):
                    pair = (c.left, c.right)
                if pair is None or not (is_ops(pair[0]) or is_ops(pair[1])):
                    continue
                nuse += 1
                left_ok = is_ops(pair[0])
                other = pair[1] if left_ok else pair[0]
                t = pyfacts.resolved_src(fn, other, 2).replace(" ", "")
                is_ubi = bool(re.search(r"(^|[._])ubi(s)?(\[[^\]]*\])?$", t, re.I))
                is_u = bool(re.search(r"\.(U|UB|u|ub)(\.T)?$", t)) or bool(re.search(r"(^|_)(U|UB)(\.T)?$", t))
                R.check(left_ok and not is_u, "C16.R6", rel, c.lineno, mm.qualname(fn), "operator applied as %s" % src(c)[:70],
                        "a crystal-basis symmetry operator is multiplied onto %s: the products are not the symmetry-equivalent orientation "
                        "matrices for groups whose operators do not commute with B (hexagonal, trigonal, rhombohedral)" % ("the right of a matrix" if not left_ok else t))
                if left_ok and not is_u and not is_ubi:
                    R.note("C16.R6: operand %s of a group operator in %s:%s is neither recognisably a UBI nor a U" % (t, rel, mm.qualname(fn)))
    if nuse < 1:
        R.fail("C16.R6 found no application of group operators outside sym_u (anchor moved: grid_index_parallel.uniq_grain_list)")


def _is_group_expr(mm, fn, g, depth=0):
    s = src(g)
    if isinstance(g, ast.Call):
        # getgroup(x)()  or sym_u.cubic()
        if isinstance(g.func, ast.Call) and (pyfacts.dotted(g.func.func) or "").split(".")[-1] == "getgroup":
            return True
        d = (pyfacts.dotted(g.func) or "").split(".")[-1]
        return d in ORDERS or d in ("trigonalP",)
    if isinstance(g, (ast.Name, ast.Attribute)) and depth < 3:
        # bound somewhere in the same function / class to such an expression, or a parameter (caller's duty)
        scope = fn if fn is not None else mm.tree
        for a in ast.walk(mm.tree):
            if isinstance(a, ast.Assign) and any(src(t) == s for t in a.targets):
                if _is_group_expr(mm, fn, a.value, depth + 1):
                    return True
        if fn is not None and isinstance(g, ast.Name) and g.id in [x.arg for x in fn.args.args + fn.args.kwonlyargs]:
            return True
        if isinstance(g, ast.Attribute):
            # attribute set elsewhere from a parameter or group expression
            for a in ast.walk(mm.tree):
                if isinstance(a, ast.Assign) and any(src(t).endswith("." + g.attr) for t in a.targets):
                    return True
    return False
