"""C10  Finite strain tensors are objective, symmetric and exact for known deformations.

Decided (as identities in the value-numbering domain, SVD factors and 3x3 inverses uninterpreted):
R1 the e6 packing tables of grain.py and finite_strain.py are the same and mutually inverse on symmetric
matrices; R2 reference/lab duality: finite_strain_lab(F) == finite_strain_ref(F^T) for every supported m
(same three-way branch, divisor and power); R3 polar factors R = w.vh, S = vh^T.diag.vh, V = w.diag.w^T,
symmetric by construction, and the vectorised tensor_map strains equal the per-grain Biot strains;
R4 role plumbing: eps_grain* -> finite_strain_ref, eps_sample* -> finite_strain_lab, F = ubi^T.B^T on both
routes, crystal<->sample rotation is U.T.U^T / U^T.T.U.
Not decided: objectivity and exactness for known stretches (need SVD semantics), first-order agreement across m.
"""
import ast
import re

import numpy as np

from engine import pyfacts, vn, vn_py
from engine.pyfacts import src
from engine.vn_py import sym

PID = "C10"
FS = "ImageD11/finite_strain.py"
GR = "ImageD11/grain.py"
TM = "ImageD11/sinograms/tensor_map.py"
UC = "ImageD11/unitcell.py"
MS = (-1, -0.5, 0, 0.5, 1, 1.5, 2)


nan_policy = vn_py.no_nan_policy


def mods(R):
    return {"finite_strain": pyfacts.module(R, FS), "grain": pyfacts.module(R, GR), "tensor_map": pyfacts.module(R, TM),
            "unitcell": pyfacts.module(R, UC), "ImageD11": None}


def run(R):
    R.assume("SVD factors (w, s, vh) and 3x3 inverses are uninterpreted symbolic values; F = w.diag(s).vh is not used")
    M = {k: v for k, v in mods(R).items() if v is not None}
    vn_py.INV_MODE[0] = "atoms"
    try:
        if R.want("C10.R1"):
            r1(R, M)
        if R.want("C10.R7"):  # positive evidence first: it must be reported even when R4 cannot read a rewritten method
            r7(R, M)
        if R.want("C10.R4"):  # structural, first: a violation found here outranks an interpreter failure in R2 / R3
            r4(R, M)
        if R.want("C10.R5"):
            r5(R, M)
        if R.want("C10.R6"):
            r6(R, M)
        if R.want("C10.R2"):
            r2(R, M)
        if R.want("C10.R3"):
            r3(R, M)
    finally:
        vn_py.INV_MODE[0] = "explicit"


def symmat(name):
    a = np.empty((3, 3), dtype=object)
    for i in range(3):
        for j in range(i, 3):
            a[i, j] = a[j, i] = sym("%s%d%d" % (name, i + 1, j + 1))
    return a


def lineof(mod, name):
    """line of a function, or of the module-level re-export that stands for it"""
    if mod.has(name):
        return mod.func(name).lineno
    for n in mod.tree.body:
        if isinstance(n, ast.Assign) and any(isinstance(t, ast.Name) and t.id == name for t in n.targets):
            return n.lineno
    raise pyfacts.AnalysisError("anchor vanished: %s:%s" % (mod.rel, name))


def r1(R, M):
    R.rule("C10.R1", "symm_to_e6 / e6_to_symm: identical tables in grain.py and finite_strain.py; e6_to_symm(symm_to_e6(M)) == M for "
                     "symmetric M and symm_to_e6(e6_to_symm(e)) == e")
    I = vn_py.Interp(M)
    Ms = symmat("m")
    e = np.array([sym("e%d" % i) for i in range(6)], dtype=object)
    outs = {}
    for mod, rel in (("grain", GR), ("finite_strain", FS)):
        a = I.call(mod, "symm_to_e6", Ms)
        b = I.call(mod, "e6_to_symm", e)
        outs[mod] = (a, b)
        back = I.call(mod, "e6_to_symm", a)
        ok, why = vn_py.same(back, Ms)
        R.check(ok, "C10.R1", rel, lineof(M[mod], "e6_to_symm"), "%s.e6_to_symm" % mod, "e6_to_symm(symm_to_e6(M)) == M", "packing tables are not inverse: " + why)
        back2 = I.call(mod, "symm_to_e6", b)
        ok, why = vn_py.same(back2, e)
        R.check(ok, "C10.R1", rel, lineof(M[mod], "symm_to_e6"), "%s.symm_to_e6" % mod, "symm_to_e6(e6_to_symm(e)) == e", "packing tables are not inverse: " + why)
        ok, why = vn_py.same(b, b.T)
        R.check(ok, "C10.R1", rel, lineof(M[mod], "e6_to_symm"), "%s.e6_to_symm" % mod, "e6_to_symm(e) is symmetric", why)
    ok, why = vn_py.same(outs["grain"][0], outs["finite_strain"][0])
    ok2, why2 = vn_py.same(outs["grain"][1], outs["finite_strain"][1])
    R.check(ok and ok2, "C10.R1", GR, lineof(M["grain"], "symm_to_e6"), "grain.symm_to_e6", "grain.py and finite_strain.py use the same e6 ordering",
            "the two modules order the six strain components differently: " + (why or why2))
    want = [Ms[0, 0], Ms[0, 1], Ms[0, 2], Ms[1, 1], Ms[1, 2], Ms[2, 2]]
    ok, why = vn_py.same(outs["grain"][0], np.array(want, dtype=object))
    R.check(ok, "C10.R1", GR, lineof(M["grain"], "symm_to_e6"), "grain.symm_to_e6", "order e11 e12 e13 e22 e23 e33 (xfab convention)", why)


def dgt(I, M, F, svd):
    """a DeformationGradientTensor-like object with chosen F and SVD"""
    cls = M["finite_strain"].cls("DeformationGradientTensor")
    attrs = {}
    # attributes that __init__ sets to an empty container / None / a literal (caches, memo tables) exist on the stand-in too
    for n_ in cls.body:
        if isinstance(n_, ast.FunctionDef) and n_.name == "__init__":
            for a_ in ast.walk(n_):
                if isinstance(a_, ast.Assign) and len(a_.targets) == 1 and isinstance(a_.targets[0], ast.Attribute) and src(a_.targets[0].value) == "self":
                    v_ = a_.value
                    if isinstance(v_, ast.Dict) and not v_.keys:
                        attrs[a_.targets[0].attr] = {}
                    elif isinstance(v_, ast.List) and not v_.elts:
                        attrs[a_.targets[0].attr] = []
                    elif isinstance(v_, ast.Constant):
                        attrs[a_.targets[0].attr] = v_.value
    attrs.update(dict(F=F, _svd=svd, _vrs=None))
    o = vn_py.SymObject((M["finite_strain"], cls), **attrs)
    return o


def r2(R, M):
    R.rule("C10.R2", "duality: finite_strain_lab(F; w,s,vh) == finite_strain_ref(F^T; vh^T,s,w^T) for m in %s" % (MS,))
    I = vn_py.Interp(M)
    F = vn_py.symarray("F", (3, 3))
    w = vn_py.symarray("w", (3, 3))
    s = vn_py.symarray("s", (3,))
    vh = vn_py.symarray("vh", (3, 3))
    fm = M["finite_strain"]
    ref_fn = fm.func("DeformationGradientTensor.finite_strain_ref")
    lab_fn = fm.func("DeformationGradientTensor.finite_strain_lab")
    for m in MS:
        o1 = dgt(I, M, F, (w, s, vh))
        lab = I.call_fn(fm, lab_fn, [o1, m], {})
        o2 = dgt(I, M, F.T, (vh.T, s, w.T))
        ref = I.call_fn(fm, ref_fn, [o2, m], {})
        ok, why = vn_py.same(lab, ref)
        R.check(ok, "C10.R2", FS, lab_fn.lineno, "DeformationGradientTensor.finite_strain_lab", "m=%s: lab(F) == ref(F^T)" % m,
                "the sample-frame and grain-frame tensors are no longer the same program under F <-> F^T (branch, divisor or power "
                "differs on one side): " + why)
        # symmetric result
        ok, why = vn_py.same(lab, lab.T)
        R.check(ok, "C10.R2", FS, lab_fn.lineno, "DeformationGradientTensor.finite_strain_lab", "m=%s: result symmetric" % m, why)
        o3 = dgt(I, M, F, (w, s, vh))
        rf = I.call_fn(fm, ref_fn, [o3, m], {})
        ok, why = vn_py.same(rf, rf.T)
        R.check(ok, "C10.R2", FS, ref_fn.lineno, "DeformationGradientTensor.finite_strain_ref", "m=%s: result symmetric" % m, why)
    # the result does not depend on what the same object was asked before (memo tables, cached decompositions): ref then lab on one
    # object equals lab then ref on another, for every m
    for m in MS:
        oa = dgt(I, M, F, (w, s, vh))
        a_ref = I.call_fn(fm, ref_fn, [oa, m], {})
        a_lab = I.call_fn(fm, lab_fn, [oa, m], {})
        a_ref2 = I.call_fn(fm, ref_fn, [oa, m], {})
        ob = dgt(I, M, F, (w, s, vh))
        b_lab = I.call_fn(fm, lab_fn, [ob, m], {})
        b_ref = I.call_fn(fm, ref_fn, [ob, m], {})
        b_lab2 = I.call_fn(fm, lab_fn, [ob, m], {})
        for x_, y_, what in ((a_ref, b_ref, "ref first vs ref after lab"), (a_lab, b_lab, "lab after ref vs lab first"),
                             (a_ref2, a_ref, "ref repeated"), (b_lab2, b_lab, "lab repeated")):
            ok, why = vn_py.same(x_, y_)
            R.check(ok, "C10.R2", FS, lab_fn.lineno, "DeformationGradientTensor", "m=%s: %s" % (m, what),
                    "the tensor an object returns depends on which tensors it was asked for before (a cache is filled or read under the "
                    "wrong key): " + why[:200])
    # the even-m path is exactly (C^m - I)/2m with C = F^T F (no SVD): value check for m = 1
    o = dgt(I, M, F, None)
    e1 = I.call_fn(fm, ref_fn, [o, 1], {})
    want = (np.dot(F.T, F) - vn_py.NP.eye(3)) / vn_py.R(2)
    ok, why = vn_py.same(e1, want)
    R.check(ok, "C10.R2", FS, ref_fn.lineno, "DeformationGradientTensor.finite_strain_ref", "m=1: (F^T F - I)/2 (Green-Lagrange)", why)
    o = dgt(I, M, F, (w, s, vh))
    e05 = I.call_fn(fm, ref_fn, [o, 0.5], {})
    S = np.dot(vh.T, np.dot(vn_py.NP.diag(s), vh))
    ok, why = vn_py.same(e05, S - vn_py.NP.eye(3))
    R.check(ok, "C10.R2", FS, ref_fn.lineno, "DeformationGradientTensor.finite_strain_ref", "m=0.5: S - I (Biot)", why)
    e0 = I.call_fn(fm, ref_fn, [dgt(I, M, F, (w, s, vh)), 0], {})
    logs = vn_py.NP.diag(vn_py.NP.log(s))
    ok, why = vn_py.same(e0, np.dot(np.dot(vh.T, logs), vh))
    R.check(ok, "C10.R2", FS, ref_fn.lineno, "DeformationGradientTensor.finite_strain_ref", "m=0: vh^T log(s) vh (Hencky)", why)


def r3(R, M):
    R.rule("C10.R3", "polar factors R = w.vh, S = vh^T.diag(s).vh, V = w.diag(s).w^T; DeformationGradientTensor.F = ubi^T.ub0^T; the "
                     "tensor_map strain kernels equal grain.eps_sample_matrix / eps_grain_matrix (m = 0.5) for a generic ubi and cell")
    I = vn_py.Interp(M, policy=nan_policy)
    fm = M["finite_strain"]
    F = vn_py.symarray("F", (3, 3))
    w = vn_py.symarray("w", (3, 3))
    s = vn_py.symarray("s", (3,))
    vh = vn_py.symarray("vh", (3, 3))
    o = dgt(I, M, F, (w, s, vh))
    V, Rr, S = I.attribute_of(fm, o, "VRS")
    d = vn_py.NP.diag(s)
    for nm, got, want in (("R", Rr, np.dot(w, vh)), ("S", S, np.dot(vh.T, np.dot(d, vh))), ("V", V, np.dot(w, np.dot(d, w.T)))):
        ok, why = vn_py.same(got, want)
        R.check(ok, "C10.R3", FS, fm.func("DeformationGradientTensor.VRS").lineno, "DeformationGradientTensor.VRS", "%s factor of the polar decomposition" % nm,
                "%s is not built from the SVD as the polar decomposition requires: %s" % (nm, why))
    ubi = vn_py.symarray("ubi", (3, 3))
    ub0 = vn_py.symarray("ub0", (3, 3))
    obj = I.instantiate(fm, fm.cls("DeformationGradientTensor"), [ubi, ub0], {})
    ok, why = vn_py.same(obj._attrs["F"], np.dot(ubi.T, ub0.T))
    R.check(ok, "C10.R3", FS, fm.func("DeformationGradientTensor.__init__").lineno, "DeformationGradientTensor.__init__", "F == ubi^T . ub0^T", why)
    # map kernels against the per-grain route, generic triclinic cell
    cell = np.array([sym(x) for x in ("a", "b", "c", "al", "be", "ga")], dtype=object)
    g = I.instantiate(M["grain"], M["grain"].cls("grain"), [ubi], {})
    gm = M["grain"]
    per_grain_sample = I.call_fn(gm, gm.func("grain.eps_sample_matrix"), [g, cell], {})
    per_grain_cryst = I.call_fn(gm, gm.func("grain.eps_grain_matrix"), [g, cell], {})
    ks = vn_py.NP.zeros((3, 3))
    kc = vn_py.NP.zeros((3, 3))
    I.call("tensor_map", "ubi_and_unitcell_to_eps_sample", ubi, cell, ks)
    I.call("tensor_map", "ubi_and_unitcell_to_eps_crystal", ubi, cell, kc)
    tm = M["tensor_map"]
    ok, why = vn_py.same(ks, per_grain_sample)
    R.check(ok, "C10.R3", TM, tm.func("ubi_and_unitcell_to_eps_sample").lineno, "ubi_and_unitcell_to_eps_sample",
            "kernel == grain.eps_sample_matrix(cell) for a generic ubi and triclinic cell",
            "the vectorised sample-frame strain differs from the per-grain one: " + why[:300])
    ok, why = vn_py.same(kc, per_grain_cryst)
    R.check(ok, "C10.R3", TM, tm.func("ubi_and_unitcell_to_eps_crystal").lineno, "ubi_and_unitcell_to_eps_crystal",
            "kernel == grain.eps_grain_matrix(cell) for a generic ubi and triclinic cell",
            "the vectorised grain-frame strain differs from the per-grain one: " + why[:300])


def value_alternatives(mod, fn, node, depth=2):
    """the expressions a value may come from: a name -> every value assigned to it in fn, a call of a same-module helper -> every
    value it returns, a conditional expression -> both arms.  Returns a list of ast nodes (leaves only)."""
    out = []
    if depth < 0:
        return [node]
    if isinstance(node, ast.Name):
        vals = [a.value for a in ast.walk(fn) if isinstance(a, ast.Assign) and any(isinstance(t, ast.Name) and t.id == node.id for t in a.targets)]
        if not vals:
            return [node]
        for v in vals:
            out += value_alternatives(mod, fn, v, depth)
        return out
    if isinstance(node, ast.IfExp):
        return value_alternatives(mod, fn, node.body, depth) + value_alternatives(mod, fn, node.orelse, depth)
    if isinstance(node, ast.Call):
        hs = [h for h in pyfacts.local_callees(mod, node, 0) if isinstance(node.func, (ast.Name, ast.Attribute))
              and h.name == (node.func.id if isinstance(node.func, ast.Name) else node.func.attr)]
        if len(hs) == 1:
            rets = [r.value for r in ast.walk(hs[0]) if isinstance(r, ast.Return) and r.value is not None]
            for v in rets:
                out += value_alternatives(mod, hs[0], v, depth - 1)
            if out:
                return out
    return [node]


def r4_reference_b(R, gm, fn, meth, bexpr):
    """reference B: <x>.UB exactly when hasattr(<x>, 'UB'), unitcell(<x>).B otherwise - directly or through a helper"""
    alts = value_alternatives(gm, fn, bexpr)
    ub = [a for a in alts if isinstance(a, ast.Attribute) and a.attr == "UB"]
    cell = [a for a in alts if isinstance(a, ast.Attribute) and a.attr == "B" and isinstance(a.value, ast.Call)
            and (pyfacts.dotted(a.value.func) or "").endswith("unitcell")]
    R.shape(len(alts) >= 1 and all(isinstance(a, ast.Attribute) for a in alts), "C10.R4", GR, "grain.%s" % meth,
            "the reference B as attribute reads (.UB of a grain / .B of a unit cell)")
    R.check(len(ub) >= 1 and len(cell) >= 1 and len(ub) + len(cell) == len(alts), "C10.R4", GR, fn.lineno, "grain.%s" % meth,
            "B = dzero_cell.UB if a grain was given else unitcell(dzero_cell).B (found %s)" % [src(a) for a in alts],
            "reference B selection differs")
    tests = []
    for n in pyfacts.closure_walk(gm, fn, 2):
        if isinstance(n, (ast.If, ast.IfExp)):
            t, pos = n.test, True
            while isinstance(t, ast.UnaryOp) and isinstance(t.op, ast.Not):
                t, pos = t.operand, not pos
            if isinstance(t, ast.Call) and src(t.func) == "hasattr" and len(t.args) == 2 and isinstance(t.args[1], ast.Constant) and t.args[1].value == "UB":
                tests.append((n, pos))
    R.shape(len(tests) == 1, "C10.R4", GR, "grain.%s" % meth, "exactly one hasattr(..., 'UB') test selecting the reference B")
    n, pos = tests[0]
    body = n.body if isinstance(n.body, list) else [n.body]
    inside = set()
    for b in body:
        inside |= {id(x) for x in ast.walk(b)}
    for a in ub:
        R.check((id(a) in inside) == pos, "C10.R4", GR, a.lineno, "grain.%s" % meth, "%s is used when hasattr(.., 'UB') holds" % src(a),
                "the grain's UB is read on the branch where the object has no UB attribute")
    for a in cell:
        R.check((id(a) in inside) != pos, "C10.R4", GR, a.lineno, "grain.%s" % meth, "%s is used when hasattr(.., 'UB') fails" % src(a),
                "cell parameters are interpreted on the branch where a grain was given")


def r4(R, M):
    R.rule("C10.R4", "grain.eps_grain(_matrix) uses finite_strain_ref, eps_sample(_matrix) uses finite_strain_lab, both from "
                     "DeformationGradientTensor(self.ubi, B) with B chosen by the same test; tensor rotations are U.T.U^T and U^T.T.U")
    gm = M["grain"]
    for meth, want in (("eps_grain_matrix", "finite_strain_ref"), ("eps_sample_matrix", "finite_strain_lab")):
        fn = gm.func("grain.%s" % meth)
        calls = [c for c in ast.walk(fn) if isinstance(c, ast.Call) and isinstance(c.func, ast.Attribute) and c.func.attr.startswith("finite_strain_")]
        R.shape(len(calls) == 1, "C10.R4", GR, "grain.%s" % meth, "the finite_strain_* call")
        R.check(calls[0].func.attr == want and len(calls[0].args) == 1 and src(calls[0].args[0]) == "m", "C10.R4", GR, calls[0].lineno, "grain.%s" % meth,
                "calls %s(m)" % calls[0].func.attr, "%s must use %s with the caller's m (grain frame <-> reference, sample frame <-> lab)" % (meth, want))
        d = [c for c in ast.walk(fn) if isinstance(c, ast.Call) and (pyfacts.dotted(c.func) or "").endswith("DeformationGradientTensor")]
        if len(d) == 0:
            # built in a helper: a pure helper is a matter of layout (cannot decide here); a helper that KEEPS the tensor on the object
            # ( self._x = (..., DeformationGradientTensor(..)) ) without clear_cache dropping it returns the strain of an earlier ubi
            cc = gm.func("grain.clear_cache") if gm.has("grain.clear_cache") else None
            cleared = set(src(t) for a_ in ast.walk(cc) if isinstance(a_, ast.Assign) for t in a_.targets) if cc is not None else set()
            for hc in ast.walk(fn):
                if isinstance(hc, ast.Call) and isinstance(hc.func, ast.Attribute) and src(hc.func.value) == "self" and gm.has("grain.%s" % hc.func.attr):
                    hfn = gm.func("grain.%s" % hc.func.attr)
                    builds = any(isinstance(c_, ast.Call) and (pyfacts.dotted(c_.func) or "").endswith("DeformationGradientTensor") for c_ in ast.walk(hfn))
                    kept = [a_ for a_ in ast.walk(hfn) if isinstance(a_, ast.Assign) and src(a_.targets[0]).startswith("self._") and src(a_.targets[0]) not in cleared
                            and not (isinstance(a_.value, ast.Constant) and a_.value.value is None)]
                    if builds and kept:
                        R.check(False, "C10.R4", GR, kept[0].lineno, "grain.%s" % hfn.name, "%s keeps a deformation gradient on the object" % src(kept[0].targets[0]),
                                "the deformation gradient is kept in %s, which clear_cache() does not reset: after set_ubi (or for another reference given as an "
                                "equal-looking object) eps_* returns the strain of the earlier orientation / reference" % src(kept[0].targets[0]))
        R.shape(len(d) == 1, "C10.R4", GR, "grain.%s" % meth, "the DeformationGradientTensor(...) call in the method itself (moved into a helper?)")
        R.check(len(d) == 1 and [src(a) for a in d[0].args] == ["self.ubi", "B"], "C10.R4", GR, fn.lineno, "grain.%s" % meth,
                "DeformationGradientTensor(self.ubi, B)", "the deformation gradient is not built from this grain's ubi and the reference B")
        r4_reference_b(R, gm, fn, meth, d[0].args[1])
    for meth, inner in (("eps_grain", "eps_grain_matrix"), ("eps_sample", "eps_sample_matrix")):
        fn = gm.func("grain.%s" % meth)
        rets = [r for r in ast.walk(fn) if isinstance(r, ast.Return) and r.value is not None]
        R.shape(len(rets) == 1, "C10.R4", GR, "grain.%s" % meth, "a single return")
        u = pyfacts.resolved_src(fn, rets[0].value, 3, keep=("self", "dzero_cell", "m")).replace(" ", "")
        if not u.startswith("symm_to_e6("):
            # the packing written out: np.array((E[0,0], E[0,1], ...)) with the index order of finite_strain.symm_to_e6 itself
            def _six(e_):
                if isinstance(e_, ast.Call) and (pyfacts.dotted(e_.func) or "").split(".")[-1] in ("array", "asarray") and e_.args \
                        and isinstance(e_.args[0], (ast.Tuple, ast.List)) and len(e_.args[0].elts) == 6 \
                        and all(isinstance(x, ast.Subscript) and isinstance(x.slice, ast.Tuple) and len(x.slice.elts) == 2 for x in e_.args[0].elts):
                    bases = set(src(x.value).replace(" ", "") for x in e_.args[0].elts)
                    idx = [tuple(pyfacts.const_int(i_) for i_ in x.slice.elts) for x in e_.args[0].elts]
                    if len(bases) == 1:
                        return bases.pop(), idx
                return None
            fsm = pyfacts.module(R, "ImageD11/finite_strain.py")
            ref_ret = [r_ for r_ in ast.walk(fsm.func("symm_to_e6")) if isinstance(r_, ast.Return) and r_.value is not None]
            ref6 = _six(ref_ret[0].value) if len(ref_ret) == 1 else None
            got6 = _six(pyfacts.resolved(fn, rets[0].value, 1, keep=("self", "dzero_cell", "m")))
            R.shape(ref6 is not None and got6 is not None, "C10.R4", GR, "grain.%s" % meth, "symm_to_e6(<matrix>) or the six elements written out (%s)" % u[:60])
            base_expr = [a_.value for a_ in ast.walk(fn) if isinstance(a_, ast.Assign) and src(a_.targets[0]) == got6[0]]
            bu = pyfacts.resolved_src(fn, base_expr[-1], 3, keep=("self", "dzero_cell", "m")).replace(" ", "") if base_expr else got6[0]
            u = "symm_to_e6(%s)" % bu if got6[1] == ref6[1] else u
        R.check(u in ("symm_to_e6(self.%s(dzero_cell,m))" % inner, "symm_to_e6(self.%s(dzero_cell,m=m))" % inner), "C10.R4", GR, fn.lineno, "grain.%s" % meth,
                "%s = symm_to_e6(%s(dzero_cell, m))" % (meth, inner), "the 6-vector is not the packing of the matrix of the same frame")
    I = vn_py.Interp(M, policy=nan_policy)
    U = vn_py.symarray("U", (3, 3))
    T = vn_py.symarray("T", (3, 3))
    r = vn_py.NP.zeros((3, 3))
    I.call("tensor_map", "tensor_crystal_to_sample", T, U, r)
    ok, why = vn_py.same(r, np.dot(U, np.dot(T, U.T)))
    tm = M["tensor_map"]
    R.check(ok, "C10.R4", TM, tm.func("tensor_crystal_to_sample").lineno, "tensor_crystal_to_sample", "U . T . U^T", why)
    r2_ = vn_py.NP.zeros((3, 3))
    I.call("tensor_map", "tensor_sample_to_crystal", T, U, r2_)
    ok, why = vn_py.same(r2_, np.dot(U.T, np.dot(T, U)))
    R.check(ok, "C10.R4", TM, tm.func("tensor_sample_to_crystal").lineno, "tensor_sample_to_crystal", "U^T . T . U", why)


def r6(R, M):
    """the reference (d-zero) cell of a voxel is the cell of the voxel's phase id: TensorMap.phases is a dict keyed by phase id, so the
    dzero_unitcell map is filled per (key, cell) pair under the mask phase_ids == key, or by subscripting self.phases with a key.
    A sequence made from the dict's values (insertion order) and indexed with phase ids pairs cells with the wrong phases whenever
    the dict is not in ascending 0..n-1 order (phases={1: b, 0: a}; more than 10 phases read back from HDF5)."""
    R.rule("C10.R6", "TensorMap.dzero_unitcell: each voxel gets the lattice parameters of self.phases[<its phase id>] (pairs from "
                     ".items() under the mask phase_ids == key, or a subscript by key) - never a list of the dict's values indexed by phase id")
    tm = M["tensor_map"]
    q = "TensorMap.dzero_unitcell"
    fn = tm.ifunc(q, depth=2)
    uses = [a for a in ast.walk(fn) if isinstance(a, ast.Attribute) and a.attr == "phases" and src(a.value) == "self"]
    R.shape(bool(uses), "C10.R6", TM, q, "the use of self.phases")
    n = 0
    for a in uses:
        par = getattr(a, "_parent", None)
        # self.phases[k]
        if isinstance(par, ast.Subscript) and par.value is a:
            n += 1
            R.inst("C10.R6", "%s:%s self.phases[%s]" % (TM, q, src(par.slice)))
            continue
        meth = par.attr if isinstance(par, ast.Attribute) and isinstance(getattr(par, "_parent", None), ast.Call) else None
        holder = getattr(getattr(par, "_parent", None), "_parent", None) if meth else par
        call = getattr(par, "_parent", None) if meth else a
        if meth == "items" and isinstance(holder, ast.For) and holder.iter is call and isinstance(holder.target, ast.Tuple) and len(holder.target.elts) == 2:
            k, u = [src(e) for e in holder.target.elts]
            stores = [st for st in ast.walk(holder) if isinstance(st, ast.Assign) and isinstance(st.targets[0], ast.Subscript)
                      and any(isinstance(x, ast.Name) and x.id == u for x in ast.walk(pyfacts.resolved(fn, st.value, 2, keep=(k, u))))]
            R.shape(bool(stores), "C10.R6", TM, q, "the store of %s's lattice parameters inside the loop over self.phases.items()" % u)
            for st in stores:
                n += 1
                mask = pyfacts.resolved(fn, st.targets[0].slice, 2, keep=(k, u))
                ok = isinstance(mask, ast.Compare) and len(mask.ops) == 1 and isinstance(mask.ops[0], ast.Eq) and \
                    sorted([src(mask.left), src(mask.comparators[0])]) == sorted([k, "self.phase_ids"])
                if not ok and not (isinstance(mask, ast.Compare) and "phase_ids" in src(mask)):
                    R.shape(False, "C10.R6", TM, q, "the voxel mask '%s' of the per-phase store" % src(mask)[:60])
                R.check(ok, "C10.R6", TM, st.lineno, q, "%s under mask %s" % (src(st.value), src(mask)),
                        "the cell of phase %s is written to voxels selected by something else than phase_ids == %s" % (k, k))
            continue
        if meth in ("keys",) or (meth is None and isinstance(par, (ast.For, ast.comprehension)) and par.iter is a):
            loop = holder if meth else par
            k = src(loop.target)
            sub = [x for x in ast.walk(fn) if isinstance(x, ast.Subscript) and src(x.value) == "self.phases" and src(x.slice) == k]
            R.shape(bool(sub), "C10.R6", TM, q, "self.phases[%s] inside the loop over the phase ids" % k)
            n += 1
            R.inst("C10.R6", "%s:%s loop over keys with self.phases[%s]" % (TM, q, k))
            continue
        if meth == "values" or (meth is None and isinstance(par, ast.Call) and src(par.func) in ("list", "tuple") and False):
            # a sequence in dict order: positive evidence when it (or an array made from it) is indexed with the phase ids
            seq_stmt = pyfacts.containing_stmt(a)
            names = [src(t) for t in seq_stmt.targets] if isinstance(seq_stmt, ast.Assign) else []
            hit = None
            for x in ast.walk(fn):
                if isinstance(x, ast.Subscript) and (src(x.value) in names or x.value is call or any(y is a for y in ast.walk(x.value))):
                    idx = pyfacts.resolved_src(fn, x.slice, 2, keep=("self",))
                    if "phase_id" in idx:
                        hit = x
            if hit is None:
                R.shape(False, "C10.R6", TM, q, "how the sequence built from self.phases.values() is matched to the phase ids")
            n += 1
            R.check(False, "C10.R6", TM, hit.lineno, q, "%s with %s from self.phases.values()" % (src(hit)[:60], names[0] if names else "a sequence"),
                    "the cells are put in a sequence in the dict's insertion order and that sequence is indexed with phase ids: a phases dict "
                    "that is not in ascending 0..n-1 order (e.g. {1: b, 0: a}, or more than 10 phases read back from HDF5 in name order) pairs "
                    "voxels with the reference cell of another phase, so every strain in those voxels is measured against the wrong cell")
            continue
        R.shape(False, "C10.R6", TM, q, "this use of self.phases: %s" % src(getattr(par, "_parent", par))[:70])
    R.floor("C10.R6", 1)


def r7(R, M):
    """F = R.S = V.R: the grain-frame tensor is f(S), the sample-frame tensor f(V) = R.f(S).R^T with R the POLAR rotation of F.  The
    Busing-Levy orientation U = (B.ubi)^T of the strained cell is a different matrix (it keeps a* along x and b* in the xy plane);
    R^T.U is a rotation by O(shear strain), so U.f(S).U^T differs from f(V) in second order of the strain (1e-3 .. 1e-2 at a 10 %
    stretch with shear).  Positive evidence: a strain tensor of one frame computed from the tensor of the other frame and U."""
    R.rule("C10.R7", "a strain tensor (map) of one frame is never obtained from the other frame's tensor by rotating with the Busing-Levy "
                     "orientation U = (B.ubi)^T: the two are related by the polar rotation of F, which differs from U whenever the stretch has "
                     "shear in the crystal axes (second order in the strain)")
    gm, tm = M["grain"], M["tensor_map"]
    other = {"eps_sample_matrix": ("eps_grain_matrix", "eps_grain"), "eps_grain_matrix": ("eps_sample_matrix", "eps_sample")}
    n = 0
    for meth, others in sorted(other.items()):
        fn = gm.func("grain.%s" % meth)
        uses = [c for c in ast.walk(fn) if isinstance(c, ast.Call) and isinstance(c.func, ast.Attribute) and c.func.attr in others
                and src(c.func.value) == "self"]
        ureads = [a for a in ast.walk(fn) if isinstance(a, ast.Attribute) and a.attr in ("U", "u") and src(a.value) == "self"]
        n += 1
        R.check(not (uses and ureads), "C10.R7", GR, (uses or [fn])[0].lineno, "grain.%s" % meth,
                "%s from self.%s and self.U" % (meth, uses[0].func.attr if uses else "-"),
                "the %s tensor is the other frame's tensor rotated with self.U (Busing-Levy orientation of the strained cell) instead of the "
                "polar rotation of the deformation gradient: the result is the right tensor turned by an extra rotation of the order of the "
                "shear strain, so it is not R.E(S).R^T for a known stretch with shear (error second order in the strain)"
                % ("sample-frame" if "sample" in meth else "grain-frame"),
                desc="%s:grain.%s is not a U-rotation of the other frame's tensor" % (GR, meth))
    for q, fn in sorted(tm.funcs.items()):
        if not q.startswith("TensorMap."):
            continue
        for c in ast.walk(fn):
            if not (isinstance(c, ast.Call) and (pyfacts.dotted(c.func) or "").split(".")[-1] in ("tensor_crystal_to_sample", "tensor_sample_to_crystal") and len(c.args) >= 2):
                continue
            arg = pyfacts.resolved_src(fn, c.args[0], 2, keep=("self",))
            if not re.match(r"^(self\.)?(eps|strain)_\w+$", arg.strip()):
                continue          # stress maps (and anything that is not a stored strain map) are outside this property
            n += 1
            fname = (pyfacts.dotted(c.func) or "").split(".")[-1]
            rot7 = pyfacts.resolved_src(fn, c.args[1], 2, keep=("self",)).replace(" ", "")
            R.check(rot7 not in ("self.U", "self.u"), "C10.R7", TM, c.lineno, q, "%s(%s, self.U)" % (fname, arg[:30]),
                    "the strain map of one frame is made from the cached map of the other frame by rotating with self.U (Busing-Levy "
                    "orientation) instead of the polar rotation: which answer %s gives depends on which of the two maps was asked for (or "
                    "loaded) first, and the rotated one differs from the per-grain tensor in second order of the strain" % q,
                    desc="%s:%s %s not rotated with the Busing-Levy U" % (TM, q, arg[:30]))
    R.floor("C10.R7", 3)


def r5(R, M):
    R.rule("C10.R5", "TensorMap frame conversions: a tensor map is rotated with the function whose source frame is the frame the map is in - "
                     "eps_sample derives from eps_crystal through tensor_crystal_to_sample(eps_crystal, U), eps_crystal from eps_sample through "
                     "tensor_sample_to_crystal(eps_sample, U) (likewise for the stress maps); so the result does not depend on which of the two "
                     "was asked for first")
    tm = M["tensor_map"]
    frame_of = {"tensor_crystal_to_sample": "crystal", "tensor_sample_to_crystal": "sample"}
    n = 0
    for q, fn in tm.funcs.items():
        if not q.startswith("TensorMap."):
            continue
        for c in ast.walk(fn):
            if not (isinstance(c, ast.Call) and (pyfacts.dotted(c.func) or "").split(".")[-1] in frame_of and c.args):
                continue
            fname = (pyfacts.dotted(c.func) or "").split(".")[-1]
            arg = pyfacts.resolved_src(fn, c.args[0], 2, keep=("self",))
            frames = set(re.findall(r"(?:eps|sig|stress|strain)\w*_(crystal|sample|lab)\b", arg)) | set(re.findall(r"\b(crystal|sample)_(?:eps|sig|stress|strain)", arg))
            frames = set("sample" if f_ == "lab" else f_ for f_ in frames)
            if len(frames) != 1:
                continue        # the frame of the argument is not visible in its name: nothing to compare
            n += 1
            have = list(frames)[0]
            R.check(frame_of[fname] == have, "C10.R5", TM, c.lineno, q, "%s(%s, ...)" % (fname, arg[:40]),
                    "a map in the %s frame is rotated with %s, which expects a %s-frame tensor: the result is U^T.e.U where U.e.U^T was "
                    "meant (or the reverse) - it differs from the directly computed map by O(strain)" % (have, fname, frame_of[fname]))
            # the rotation used is the grain orientation of the same map
            rot = pyfacts.resolved_src(fn, c.args[1], 2, keep=("self",)).replace(" ", "") if len(c.args) > 1 else None
            R.check(rot in ("self.U", "self.polar_rotation()"), "C10.R5", TM, c.lineno, q, "rotation argument %s" % rot,
                    "the tensor is not rotated with a rotation of the same voxels (the polar rotation of the deformation gradient for "
                    "strain maps, the orientation U for the others)")
    if n < 2:
        R.fail("C10.R5 found %d frame conversions in TensorMap whose argument names its frame, expected at least 2" % n)
