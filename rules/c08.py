"""C08  The indexer reports only genuine grains and finds all of them on ideal data.

Decided (structural necessary conditions of the soundness half):
R1 acceptance gate: indexer.ubis grows only in scorethem, and only under a strict `npk > self.minpks` and a strict
   `uniqueness > self.uniqueness`; the count that is compared is the score, at hkl_tol, of the matrix that is stored
   (lock-step hand-over of (UBI, npk) when a better candidate replaces it); ga / ubis / scores are updated together and
   the label written into ga can never be the 'free' sentinel.
R2 free-peak discipline: pairs with a claimed peak or i == j are skipped before orient; find() draws candidates only
   from peaks with ga == -1; one sentinel (-1) everywhere.
R3 do_index puts the OpenMP thread count back in a finally.
R4 handedness by construction: the crystal triad of unitcell.BTmat and the lab triad of cdiffraction.c:quickorient
   have the same (symbolic) determinant, each maps its first vector to |v| e1, so det(UBI) = det(B^-1) and UBI.g1 is
   parallel to h1 (value numbering over both languages).
R5 duplicate test: the uniqueness that is compared is (#peaks of getind(UBI) still free) / (#peaks of getind(UBI)).
Not decided (most of the property): cell parameters within tolerance, de-duplication up to symmetry, completeness on
ideal data - outcomes of a search over floating point data.
"""
import ast

import numpy as np

from engine import cfront, pyfacts, vn, vn_c, vn_py
from engine.pyfacts import src, dotted

PID = "C08"
REL = "ImageD11/indexing.py"
UREL = "ImageD11/unitcell.py"
CFILE = "src/cdiffraction.c"


def elementwise_map(scope, value, source):
    """is `value` one new element per element of `source` (same length, same order)?  True / False / None (construction not understood):
    [f(u) for u in source], list(map(f, source)), or a name built by  X = []; for u in source: X.append(f(u))"""
    if isinstance(value, ast.ListComp) and len(value.generators) == 1:
        g = value.generators[0]
        return nows(src(g.iter)) == source and not g.ifs
    if isinstance(value, ast.Call) and src(value.func) in ("list", "tuple") and len(value.args) == 1:
        inner = value.args[0]
        if isinstance(inner, ast.Call) and src(inner.func) == "map" and len(inner.args) == 2:
            return nows(src(inner.args[1])) == source
        if isinstance(inner, ast.GeneratorExp) and len(inner.generators) == 1:
            return nows(src(inner.generators[0].iter)) == source and not inner.generators[0].ifs
        return None
    if isinstance(value, ast.Name):
        X = value.id
        inits = [a for a in ast.walk(scope) if isinstance(a, ast.Assign) and any(isinstance(t, ast.Name) and t.id == X for t in a.targets)]
        if len(inits) != 1 or not is_empty_list(inits[0].value):
            return None
        muts = []
        for c in ast.walk(scope):
            if isinstance(c, ast.Call) and isinstance(c.func, ast.Attribute) and isinstance(c.func.value, ast.Name) and c.func.value.id == X \
                    and c.func.attr in ("append", "extend", "insert", "pop", "remove", "sort", "reverse", "clear"):
                muts.append(c)
            if isinstance(c, ast.AugAssign) and isinstance(c.target, ast.Name) and c.target.id == X:
                return None
        loops = [l for l in ast.walk(scope) if isinstance(l, ast.For) and nows(src(l.iter)) == source]
        if len(loops) != 1 or not muts:
            return None if not loops else False
        lp = loops[0]
        direct = [s_.value for s_ in lp.body if isinstance(s_, ast.Expr) and isinstance(s_.value, ast.Call)]
        if any(m_.func.attr != "append" for m_ in muts):
            return False
        if len(muts) != 1 or not any(m_ is d for m_ in muts for d in direct):
            return False      # appended under a condition, twice per element, or outside the loop over the source
        if lp.orelse or any(isinstance(x, (ast.Break, ast.Continue, ast.Return)) for x in ast.walk(lp)):
            return False
        return True
    return None


def run(R):
    m = pyfacts.module(R, REL)
    if R.want("C08.R1"):
        r1(R, m)
    if R.want("C08.R2"):
        r2(R, m)
    if R.want("C08.R3"):
        r3(R, m)
    if R.want("C08.R4"):
        r4(R)
    if R.want("C08.R5"):
        r5(R, m)
    if R.want("C08.R6"):
        r6(R, m)
    if R.want("C08.R8"):
        r8(R)
    if R.want("C08.R9"):
        r9(R, m)
    if R.want("C08.R10"):
        r10(R, m)
    if R.want("C08.R11"):
        r11(R, m)
    if R.want("C08.R7"):
        # "indexes ... within the hkl tolerance": the gate's count (cImageD11.score), the peaks claimed (score_and_assign via
        # getind), the refinement (score_and_refine) and the Python references use ONE predicate.  Shared with C06.R3 / R4.
        from rules import c06
        tus6 = cfront.load(R.root, files=["closest.c"])
        c06.r34(R, tus6, r3n="C08.R7", r4n="C08.R7")


# --------------------------------------------------------------------------------------------------
def nows(s):
    return "".join(s.split())


def atoms_of_guards(guards):
    """[(expr, polarity)] -> list of (atomic expr, polarity) known on the path: 'a or b' false gives a false and b false,
    'a and b' true gives both true, 'not a' flips."""
    out = []
    work = list(guards)
    while work:
        e, pol = work.pop()
        if isinstance(e, ast.UnaryOp) and isinstance(e.op, ast.Not):
            work.append((e.operand, not pol))
        elif isinstance(e, ast.BoolOp) and isinstance(e.op, ast.Or) and pol is False:
            work += [(v, False) for v in e.values]
        elif isinstance(e, ast.BoolOp) and isinstance(e.op, ast.And) and pol is True:
            work += [(v, True) for v in e.values]
        else:
            out.append((e, pol))
    return out


FLIP = {ast.Gt: ast.Lt, ast.Lt: ast.Gt, ast.GtE: ast.LtE, ast.LtE: ast.GtE, ast.Eq: ast.Eq, ast.NotEq: ast.NotEq}
NEG = {ast.Gt: ast.LtE, ast.Lt: ast.GtE, ast.GtE: ast.Lt, ast.LtE: ast.Gt, ast.Eq: ast.NotEq, ast.NotEq: ast.Eq}
OPS = {ast.Gt: ">", ast.Lt: "<", ast.GtE: ">=", ast.LtE: "<=", ast.Eq: "==", ast.NotEq: "!="}


def rel(e, pol):
    """single two-operand comparison known with polarity pol -> (lhs text, op, rhs text) normalised so that it holds,
    written with '>' / '>=' / '==' / '!=' only (a < b is b > a)."""
    if not (isinstance(e, ast.Compare) and len(e.ops) == 1):
        return None
    op = type(e.ops[0])
    if op not in OPS:
        return None
    a, b = e.left, e.comparators[0]
    if not pol:
        op = NEG[op]
    if op in (ast.Lt, ast.LtE):
        a, b, op = b, a, FLIP[op]
    return nows(src(a)), OPS[op], nows(src(b))


def holds(facts, a, op, b):
    """is `a op b` among the facts (also in the flipped spelling for the symmetric operators)?"""
    if (a, op, b) in facts:
        return True
    if op in ("==", "!=") and (b, op, a) in facts:
        return True
    return False


def facts_at(cfg, stmt):
    n = cfg.node_of(stmt)
    if n is None:
        return None
    out = set()
    for e, pol in atoms_of_guards(cfg.guards(n)):
        r = rel(e, pol)
        if r:
            out.add(r)
    return out


def assigns_to(fn, name):
    return [n for n in ast.walk(fn) if isinstance(n, ast.Assign) and any(nows(src(t)) == name for t in n.targets)]


def method(m, qual):
    return m.func(qual)


# --------------------------------------------------------------------------------------------------
def mutations_of(tree, attr):
    """statements that rebind X.<attr> or grow / shrink it in place"""
    out = []
    for n in ast.walk(tree):
        if isinstance(n, (ast.Assign, ast.AugAssign, ast.AnnAssign)):
            ts = n.targets if isinstance(n, ast.Assign) else [n.target]
            flat = []
            for t in ts:
                flat += list(t.elts) if isinstance(t, (ast.Tuple, ast.List)) else [t]
            for t in flat:
                if isinstance(t, ast.Attribute) and t.attr == attr:
                    out.append((n, "rebind", t.value))
                if isinstance(t, ast.Subscript) and isinstance(t.value, ast.Attribute) and t.value.attr == attr:
                    out.append((n, "store", t.value.value))
        elif isinstance(n, ast.Call) and isinstance(n.func, ast.Attribute) and n.func.attr in (
                "append", "extend", "insert", "pop", "remove", "clear", "sort", "reverse", "__setitem__", "__iadd__") \
                and isinstance(n.func.value, ast.Attribute) and n.func.value.attr == attr:
            out.append((n, n.func.attr, n.func.value.value))
        elif isinstance(n, ast.Delete):
            for t in n.targets:
                if isinstance(t, ast.Subscript) and isinstance(t.value, ast.Attribute) and t.value.attr == attr:
                    out.append((n, "del", t.value.value))
    return out


def is_empty_list(v):
    return isinstance(v, ast.List) and not v.elts


def r1(R, m):
    R.rule("C08.R1", "indexer.ubis grows only in scorethem under strict npk > self.minpks and uniqueness > self.uniqueness; "
                     "npk is self.score(<the stored matrix>, float(self.hkl_tol)); (UBI, npk) are replaced together and only "
                     "by a candidate scoring at least as well; ga[ind], ubis, scores are updated in one block; the label is "
                     "never the free sentinel")
    cls = m.cls("indexer")
    grow = []
    for meth in [n for n in cls.body if isinstance(n, ast.FunctionDef)]:
        for n, how, obj in mutations_of(meth, "ubis"):
            if not (isinstance(obj, ast.Name) and obj.id == "self"):
                continue
            if how == "rebind" and is_empty_list(n.value):
                R.inst("C08.R1", "indexer.%s: self.ubis = [] (reset)" % meth.name)
                continue
            grow.append((meth, n, how))
    R.shape(bool(grow), "C08.R1", REL, "indexer", "a statement that adds to self.ubis")
    for meth, n, how in grow:
        R.check(meth.name == "scorethem" and how == "append", "C08.R1", REL, n.lineno, "indexer.%s" % meth.name,
                "self.ubis %s: %s" % (how, src(n)[:70]),
                "orientations enter the reported list outside scorethem's acceptance gate (minimum peak count and "
                "uniqueness are not tested here)", desc="indexer.%s self.ubis.%s" % (meth.name, how))
    # module-level functions / other classes of indexing.py touching <obj>.ubis
    for n, how, obj in mutations_of(m.tree, "ubis"):
        fn = m.enclosing_function(n)
        q = m.qualname(fn) if fn is not None else "<module>"
        if q.startswith("indexer."):
            continue
        R.violation("C08.R1", REL, n.lineno, q, "%s: %s" % (how, src(n)[:70]),
                    "the indexer's reported list is changed outside the class, bypassing the acceptance gate")
    # other library files: elementwise remapping of an existing list is the one accepted idiom
    nother = 0
    for rel_ in pyfacts.library_files(R.root, R.tier):
        if rel_ == REL:
            continue
        try:
            om = pyfacts.module(R, rel_)
        except SyntaxError:
            continue
        imports_indexing = any(isinstance(x, (ast.Import, ast.ImportFrom)) and "indexing" in src(x) for x in ast.walk(om.tree))
        if not imports_indexing:
            continue
        for n, how, obj in mutations_of(om.tree, "ubis"):
            if isinstance(obj, ast.Name) and obj.id == "self":
                continue      # another class's own attribute
            nother += 1
            ok = False
            fn = om.enclosing_function(n)
            source = nows(src(obj)) + ".ubis"
            if how == "rebind" and isinstance(n, ast.Assign) and not is_empty_list(n.value):
                ok = elementwise_map(fn if fn is not None else om.tree, n.value, source)
                R.shape(ok is not None, "C08.R1", rel_, om.qualname(fn) if fn is not None else "<module>",
                        "how the list assigned by '%s' is built (comprehension, map(), or an append loop over %s)" % (src(n)[:60], source))
            if how == "rebind" and isinstance(n, ast.Assign) and is_empty_list(n.value):
                ok = True
            R.check(ok, "C08.R1", rel_, n.lineno, om.qualname(fn) if fn is not None else "<module>", src(n)[:80],
                    "an indexer's reported list is rebuilt outside scorethem by something other than an element-by-element "
                    "map of the accepted list", desc="%s: %s (element-wise map / reset)" % (rel_, src(n)[:50]))
    R.note("C08.R1: %d writes to <indexer>.ubis in other library files that import indexing" % nother)

    fn = method(m, "indexer.scorethem")
    cfg = pyfacts.PyCFG(fn)
    apps = [n for meth, n, how in grow if meth is fn or meth.name == "scorethem"]
    for call in apps:
        stmt = pyfacts.containing_stmt(call)
        facts = facts_at(cfg, stmt)
        R.shape(facts is not None, "C08.R1", REL, "indexer.scorethem", "the append in the CFG")
        arg = nows(src(call.args[0])) if call.args else None
        R.check(holds(facts, "npk", ">", "self.minpks"), "C08.R1", REL, stmt.lineno, "indexer.scorethem",
                "self.ubis.append under guards %s" % sorted(facts),
                "the orientation is accepted without the strict test npk > self.minpks: a matrix indexing exactly (or fewer "
                "than) the requested minimum would be reported", desc="append dominated by npk > self.minpks (strict)")
        R.check(holds(facts, "uniqueness", ">", "self.uniqueness"), "C08.R1", REL, stmt.lineno, "indexer.scorethem",
                "self.ubis.append under guards %s (uniqueness)" % sorted(facts),
                "the orientation is accepted without the strict test uniqueness > self.uniqueness: an orientation whose "
                "peaks all belong to an earlier grain would be reported again",
                desc="append dominated by uniqueness > self.uniqueness (strict)")
        # same block: ga[ind] store, ubis.append, scores.append
        block = getattr(stmt, "_parent", None)
        body = None
        for fld in ("body", "orelse", "finalbody"):
            if stmt in getattr(block, fld, []):
                body = getattr(block, fld)
        R.shape(body is not None, "C08.R1", REL, "indexer.scorethem", "the block holding the append")
        simple = [s for s in body]
        ga_store = [s for s in simple if isinstance(s, ast.Assign) and isinstance(s.targets[0], ast.Subscript)
                    and nows(src(s.targets[0].value)) == "self.ga"]
        sc_app = [s for s in simple if isinstance(s, ast.Expr) and isinstance(s.value, ast.Call)
                  and nows(src(s.value.func)) == "self.scores.append"]
        R.check(len(ga_store) == 1 and len(sc_app) == 1, "C08.R1", REL, stmt.lineno, "indexer.scorethem",
                "block of the append: %d stores to self.ga[...], %d self.scores.append" % (len(ga_store), len(sc_app)),
                "accepting an orientation must, in the same block, claim its peaks in self.ga (so that later candidates see "
                "them) and record its score; otherwise the same grain is found again from another pair")
        if len(ga_store) == 1 and len(sc_app) == 1:
            R.check(nows(src(sc_app[0].value.args[0])) == "npk", "C08.R1", REL, sc_app[0].lineno, "indexer.scorethem",
                    src(sc_app[0]), "the recorded score is not the count that passed the gate")
            # the label: len(<list>) + positive constant, or a non-negative constant expression
            lab = ga_store[0].value
            nonneg = False
            if isinstance(lab, ast.BinOp) and isinstance(lab.op, ast.Add):
                parts = [lab.left, lab.right]
                lens = [p for p in parts if isinstance(p, ast.Call) and dotted(p.func) == "len"]
                consts = [p for p in parts if isinstance(p, ast.Constant) and isinstance(p.value, int) and p.value >= 0]
                nonneg = len(lens) + len(consts) == 2 and len(lens) >= 1
            elif isinstance(lab, ast.Call) and dotted(lab.func) == "len":
                nonneg = True
            elif isinstance(lab, ast.Constant) and isinstance(lab.value, int) and lab.value >= 0:
                nonneg = True
            R.check(nonneg, "C08.R1", REL, ga_store[0].lineno, "indexer.scorethem", "label %s" % src(lab),
                    "the value written into self.ga for claimed peaks is not provably >= 0: -1 means 'free', so the peaks "
                    "of an accepted grain would stay available and the grain is reported again")
            # whose peaks: ind = self.getind(<appended matrix>, ...)
            idx = nows(src(ga_store[0].targets[0].slice))
            defs = assigns_to(fn, idx)
            okind = len(defs) == 1 and isinstance(defs[0].value, ast.Call) and nows(src(defs[0].value.func)) == "self.getind" \
                and defs[0].value.args and nows(src(defs[0].value.args[0])) == arg
            R.check(okind, "C08.R1", REL, ga_store[0].lineno, "indexer.scorethem",
                    "self.ga[%s] with %s := %s" % (idx, idx, [src(d.value)[:40] for d in defs]),
                    "the peaks claimed for the new grain are not the peaks indexed by the stored matrix (self.getind(%s))" % arg)
        # ---- what is npk: reaching definitions
        r1_npk(R, m, fn, cfg, stmt, arg)


def _is_count_call(v):
    """self.score(W, tol), or the kernel it wraps written out: cImageD11.score(W, self.gv, tol) (same g-vectors, same tolerance slot)"""
    if not (isinstance(v, ast.Call) and v.args):
        return False
    f_ = nows(src(v.func))
    if f_ == "self.score":
        return True
    return f_ == "cImageD11.score" and len(v.args) == 3 and nows(src(v.args[1])) == "self.gv"


def r1_npk(R, m, fn, cfg, app_stmt, ubiname):
    defs_npk = assigns_to(fn, "npk")
    defs_ubi = assigns_to(fn, ubiname)
    R.shape(bool(defs_npk) and bool(defs_ubi), "C08.R1", REL, "indexer.scorethem", "definitions of npk and %s" % ubiname)
    # tol
    tols = assigns_to(fn, "tol")
    R.check(len(tols) == 1 and nows(src(tols[0].value)) in ("float(self.hkl_tol)", "self.hkl_tol"), "C08.R1", REL,
            tols[0].lineno if tols else fn.lineno, "indexer.scorethem", "tol := %s" % [src(t.value) for t in tols],
            "the tolerance used for counting is not the requested self.hkl_tol")
    # every self.score call passes tol
    nsc = 0
    for c in ast.walk(fn):
        if isinstance(c, ast.Call) and nows(src(c.func)) in ("self.score", "cImageD11.score"):
            nsc += 1
            tolarg = c.args[-1] if len(c.args) >= 2 else None
            R.check(tolarg is not None and nows(src(tolarg)) == "tol", "C08.R1", REL, c.lineno, "indexer.scorethem", src(c)[:60],
                    "a candidate is scored with a tolerance other than hkl_tol")
    R.shape(nsc >= 2, "C08.R1", REL, "indexer.scorethem", "at least two scoring calls (first guess and refined candidates)")
    gate = None
    for n in ast.walk(fn):
        if isinstance(n, ast.If):
            r = rel(n.test, True)
            if r == ("npk", ">", "self.minpks") or (r and r[0] == "npk" and r[2] == "self.minpks"):
                gate = n
    R.shape(gate is not None, "C08.R1", REL, "indexer.scorethem", "the gate 'if npk ? self.minpks'")
    gnode = cfg.nodes[[x.id for x in cfg.nodes if x.k == "test" and x.node is gate.test][0]]
    for d in defs_npk + defs_ubi:
        dn = cfg.node_of(d)
        before = cfg.dominates(dn, gnode)
        name = nows(src(d.targets[0]))
        if before:
            if name == "npk":
                ok = _is_count_call(d.value) \
                    and nows(src(d.value.args[0])) == "self.unitcell.UBI"
                R.check(ok, "C08.R1", REL, d.lineno, "indexer.scorethem", src(d)[:70],
                        "the count tested against minpks is not the score of the trial matrix self.unitcell.UBI")
            else:
                ok = nows(src(d.value)) in ("self.unitcell.UBI.copy()", "self.unitcell.UBI")
                R.check(ok, "C08.R1", REL, d.lineno, "indexer.scorethem", src(d)[:70],
                        "the matrix that will be stored is not the matrix that was scored")
                # self.unitcell.UBI must not be replaced between scoring and the copy
                sc = [x for x in defs_npk if cfg.dominates(cfg.node_of(x), gnode)]
                if sc:
                    lo, hi = sorted((sc[0].lineno, d.lineno))
                    between = [c for c in ast.walk(fn) if isinstance(c, ast.Call) and nows(src(c.func)) == "self.unitcell.orient"
                               and lo < c.lineno < hi]
                    between += [a for a in ast.walk(fn) if isinstance(a, ast.Assign) and nows(src(a.targets[0])) == "self.unitcell.UBI"
                                and lo < a.lineno < hi]
                    R.check(not between, "C08.R1", REL, d.lineno, "indexer.scorethem", "score and copy of self.unitcell.UBI adjacent",
                            "self.unitcell.UBI is recomputed between being scored and being copied: the stored matrix is not "
                            "the scored one")
            continue
        # a replacement after the gate: must be under `<new> >= npk` and (UBI, npk) replaced in the same block by the same index
        facts = facts_at(cfg, d)
        parent = getattr(d, "_parent", None)
        sibs = [s for fld in ("body", "orelse") for s in getattr(parent, fld, []) if d in getattr(parent, fld, [])]
        sib_names = {nows(src(s.targets[0])): s for s in sibs if isinstance(s, ast.Assign)}
        both = "npk" in sib_names and ubiname in sib_names
        R.check(both, "C08.R1", REL, d.lineno, "indexer.scorethem", "%s replaced after the gate" % name,
                "after the gate the stored matrix and its count must be replaced together; here only one of them is, so the "
                "reported matrix no longer has the count that was tested")
        if not both:
            continue
        nv, uv = sib_names["npk"].value, sib_names[ubiname].value
        base = uv.func.value if isinstance(uv, ast.Call) and isinstance(uv.func, ast.Attribute) and uv.func.attr == "copy" else uv
        if isinstance(nv, ast.Subscript) and isinstance(nv.value, ast.Name):
            # form 1: npk = npks[c]; UBI = LIST[c].copy(); npks = [self.score(x, tol) for x in LIST]; guard npks[c] >= npk
            ch = nows(src(nv.slice))
            lst = nv.value.id
            oku = isinstance(base, ast.Subscript) and nows(src(base.slice)) == ch
            ldefs = assigns_to(fn, lst)
            okl = False
            if oku and len(ldefs) == 1 and isinstance(ldefs[0].value, ast.ListComp) and len(ldefs[0].value.generators) == 1:
                lc = ldefs[0].value
                g = lc.generators[0]
                okl = _is_count_call(lc.elt) \
                    and nows(src(lc.elt.args[0])) == nows(src(g.target)) and nows(src(g.iter)) == nows(src(base.value)) and not g.ifs
            R.check(oku and okl, "C08.R1", REL, d.lineno, "indexer.scorethem",
                    "%s := %s with npk := %s, %s := %s" % (ubiname, src(uv), src(nv), lst, [src(x.value)[:60] for x in ldefs]),
                    "the replacement matrix and the replacement count are not the same entry of the candidate list and its scores")
        elif isinstance(nv, ast.Name) and isinstance(base, ast.Name):
            # form 2: npk = m; UBI = W  with  m = self.score(W, tol)  and W not modified in place between that score and here
            mdefs = assigns_to(fn, nv.id)

            def is_score_of(v_, w_):
                return _is_count_call(v_) and nows(src(v_.args[0])) == w_

            def block_of(st_):
                par_ = getattr(st_, "_parent", None)
                for fld_ in ("body", "orelse", "finalbody"):
                    blk_ = getattr(par_, fld_, None)
                    if isinstance(blk_, list) and st_ in blk_:
                        return blk_
                return []
            okm = len(mdefs) == 1 and is_score_of(mdefs[0].value, base.id)
            if not okm and len(mdefs) >= 2:
                # a running best kept as a pair (W, m): every definition of m is the score of W, or a copy of another pair
                # (m := m2 next to W := W2 with m2 the score of W2), and every definition of W has its m next to it
                wdefs = assigns_to(fn, base.id)
                pair_ok = True
                for md in mdefs:
                    if is_score_of(md.value, base.id):
                        continue
                    if isinstance(md.value, ast.Name):
                        m2 = assigns_to(fn, md.value.id)
                        wsib = [x for x in block_of(md) if isinstance(x, ast.Assign) and nows(src(x.targets[0])) == base.id and isinstance(x.value, ast.Name)]
                        if len(m2) == 1 and len(wsib) == 1 and is_score_of(m2[0].value, wsib[0].value.id):
                            continue
                    pair_ok = False
                for wd in wdefs:
                    blk_ = block_of(wd)
                    if not any(isinstance(x, ast.Assign) and nows(src(x.targets[0])) == nv.id for x in blk_):
                        pair_ok = False
                okm = pair_ok and bool(wdefs)
            R.check(okm, "C08.R1", REL, d.lineno, "indexer.scorethem",
                    "%s := %s with npk := %s, %s := %s" % (ubiname, src(uv), src(nv), nv.id, [src(x.value)[:60] for x in mdefs]),
                    "the replacement count is not the score of the replacement matrix")
            if okm:
                stale = [mu for mu in inplace_mutations(R, fn, base.id) if mu.lineno > min(x.lineno for x in mdefs) and mu.lineno < d.lineno]
                R.check(not stale, "C08.R1", REL, d.lineno, "indexer.scorethem", "%s unchanged between its scoring and the hand-over" % base.id,
                        "the replacement matrix is modified in place after it was scored: %s" % [src(x)[:50] for x in stale])
        else:
            R.shape(False, "C08.R1", REL, "indexer.scorethem", "a replacement of the form (<list>[c], <scores>[c]) or (<matrix>, <its score>)")
        good = holds(facts, nows(src(nv)), ">=", "npk") or holds(facts, nows(src(nv)), ">", "npk")
        R.check(good, "C08.R1", REL, d.lineno, "indexer.scorethem", "%s replaced under %s" % (name, sorted(facts)),
                "the count is replaced without the guard <new count> >= npk: it may drop to or below minpks after the gate "
                "was passed")
    # the appended matrix is the variable handed to score_and_refine / getind
    R.inst("C08.R1", "npk/%s: %d + %d definitions examined" % (ubiname, len(defs_npk), len(defs_ubi)))


# --------------------------------------------------------------------------------------------------
_MUTATORS = {}


def mutating_kernels(R):
    """compiled routines that overwrite their first (matrix) argument: read from the .pyf intent of that argument"""
    if R.root in _MUTATORS:
        return _MUTATORS[R.root]
    from engine import iface
    fns, order = iface.crack(R.path("src/_cImageD11.pyf"))
    out = set()
    for n, b in fns.items():
        if not b["args"]:
            continue
        v = b["vars"][b["args"][0]]
        intent = v.get("intent") or []
        if v.get("dimension") and ("inout" in intent or "out" in intent or "inplace" in intent):
            out.add(n)
    _MUTATORS[R.root] = out
    return out


def inplace_mutations(R, fn, name):
    """statements of fn that change the array bound to `name` without rebinding the name"""
    muts = mutating_kernels(R)
    out = []
    # plain aliases  W = name  (no copy) share the array
    aliases = {name}
    changed = True
    while changed:
        changed = False
        for a in ast.walk(fn):
            if isinstance(a, ast.Assign) and isinstance(a.value, ast.Name) and a.value.id in aliases:
                for t in a.targets:
                    if isinstance(t, ast.Name) and t.id not in aliases:
                        aliases.add(t.id)
                        changed = True
    for n in ast.walk(fn):
        if isinstance(n, ast.Call) and n.args and isinstance(n.args[0], ast.Name) and n.args[0].id in aliases:
            d = (dotted(n.func) or "").split(".")[-1]
            if d in muts:
                out.append(n)
        elif isinstance(n, (ast.Assign, ast.AugAssign)):
            ts = n.targets if isinstance(n, ast.Assign) else [n.target]
            for t in ts:
                if isinstance(t, ast.Subscript) and isinstance(t.value, ast.Name) and t.value.id in aliases:
                    out.append(n)
                if isinstance(n, ast.AugAssign) and isinstance(t, ast.Name) and t.id in aliases:
                    out.append(n)
    return out


def r6(R, m):
    R.rule("C08.R6", "the matrix that is appended to self.ubis is not modified in place (score_and_refine & co., slice stores, "
                     "augmented assignment) after the count that passed the minpks gate was taken: what is reported is what was "
                     "counted")
    fn = method(m, "indexer.scorethem")
    apps = [c for c in ast.walk(fn) if isinstance(c, ast.Call) and nows(src(c.func)) == "self.ubis.append" and c.args]
    R.shape(len(apps) == 1 and isinstance(apps[0].args[0], ast.Name), "C08.R6", REL, "indexer.scorethem", "self.ubis.append(<name>)")
    v = apps[0].args[0].id
    muts_k = mutating_kernels(R)
    R.shape("score_and_refine" in muts_k, "C08.R6", "src/_cImageD11.pyf", "score_and_refine", "first argument declared intent(inout)")
    defs = assigns_to(fn, v)
    R.shape(bool(defs), "C08.R6", REL, "indexer.scorethem", "definitions of %s" % v)
    first = min(d.lineno for d in defs)
    bad = [mu for mu in inplace_mutations(R, fn, v) if first < mu.lineno < apps[0].lineno]
    for mu in bad:
        R.violation("C08.R6", REL, mu.lineno, "indexer.scorethem", "%s modifies %s in place before self.ubis.append(%s)" % (src(mu)[:60], v, v),
                    "the least-squares refinement overwrites the matrix after npk > self.minpks was tested and the count is not taken "
                    "again: the reported matrix can index fewer than minpks + 1 peaks (and self.scores records the count of a "
                    "matrix that was not kept)")
    R.inst("C08.R6", "%s: %d in-place modifications between its definition and the append" % (v, len(bad)), ok=not bad)
    # any refinement in scorethem works on a matrix that is scored afterwards
    nref = 0
    for c in ast.walk(fn):
        if isinstance(c, ast.Call) and (dotted(c.func) or "").split(".")[-1] in muts_k and c.args and isinstance(c.args[0], ast.Name):
            w = c.args[0].id
            if w == v:
                continue
            nref += 1
            rescored = [a for a in ast.walk(fn) if isinstance(a, ast.Assign) and isinstance(a.value, ast.Call)
                        and _is_count_call(a.value) and nows(src(a.value.args[0])) == w and a.lineno > c.lineno]
            R.check(bool(rescored), "C08.R6", REL, c.lineno, "indexer.scorethem", "%s refined then scored again" % w,
                    "a refined matrix is used without its peak count being taken again")
    R.note("C08.R6: kernels that overwrite their first argument per the .pyf: %s" % sorted(muts_k))


# --------------------------------------------------------------------------------------------------
def r2(R, m):
    R.rule("C08.R2", "scorethem skips a popped pair (i, j) when ga[i] or ga[j] is claimed or i == j before orient; find() "
                     "selects only peaks with ga == -1; -1 is the only 'free' sentinel compared against")
    fn = method(m, "indexer.scorethem")
    cfg = pyfacts.PyCFG(fn)
    pops = [a for a in ast.walk(fn) if isinstance(a, ast.Assign) and isinstance(a.value, ast.Call)
            and nows(src(a.value.func)) == "self.hits.pop" and isinstance(a.targets[0], ast.Tuple)]
    R.shape(len(pops) == 1 and len(pops[0].targets[0].elts) == 3, "C08.R2", REL, "indexer.scorethem", "diff, i, j = self.hits.pop()")
    _, ni, nj = [nows(src(e)) for e in pops[0].targets[0].elts]
    orients = [c for c in ast.walk(fn) if isinstance(c, ast.Call) and nows(src(c.func)) == "self.unitcell.orient"]
    R.shape(len(orients) >= 1, "C08.R2", REL, "indexer.scorethem", "calls of self.unitcell.orient")
    for c in orients:
        st = pyfacts.containing_stmt(c)
        facts = facts_at(cfg, st)
        R.shape(facts is not None, "C08.R2", REL, "indexer.scorethem", "orient call in CFG")

        def free(ix):
            g = "self.ga[%s]" % ix
            return holds(facts, "-1", ">=", g) or holds(facts, g, "==", "-1") or holds(facts, "0", ">", g)
        R.check(free(ni) and free(nj), "C08.R2", REL, c.lineno, "indexer.scorethem",
                "orient(%s, %s) reached under %s" % (ni, nj, sorted(facts)),
                "a pair containing a peak already claimed by an accepted grain is oriented and scored: the same grain is "
                "found again (or a peak is shared)", desc="orient at line-independent site dominated by ga[%s], ga[%s] free" % (ni, nj))
        R.check(holds(facts, ni, "!=", nj), "C08.R2", REL, c.lineno, "indexer.scorethem",
                "orient(%s, %s) reached under %s (i != j)" % (ni, nj, sorted(facts)),
                "a peak paired with itself is oriented: g1 x g2 = 0 and the matrix is nan")
        # arguments are the pair
        a = [nows(src(x)) for x in c.args]
        okargs = len(a) >= 4 and a[0] == "self.ring_1" and a[2] == "self.ring_2" and a[1].startswith("self.gv[%s" % ni) \
            and a[3].startswith("self.gv[%s" % nj)
        R.check(okargs, "C08.R2", REL, c.lineno, "indexer.scorethem", src(c)[:90].replace("\n", " "),
                "orient is not called with (ring_1, gv[i], ring_2, gv[j]) for the popped pair")
    # the two orient calls take the same pair (second differs only by crange)
    # find(): masks
    ff = method(m, "indexer.find")
    masks = [c for c in ast.walk(ff) if isinstance(c, ast.Call) and (dotted(c.func) or "").endswith("compress")]
    nmask = 0
    for c in masks:
        t = nows(pyfacts.resolved_src(ff, c.args[0], 3, keep=("self",)))      # through local names (unassigned = self.ga == -1)
        if "self.ra" not in t:
            continue
        nmask += 1
        R.check("self.ga==-1" in t or "self.ga<0" in t, "C08.R2", REL, c.lineno, "indexer.find", src(c.args[0])[:80],
                "candidate peaks for a ring are not restricted to unclaimed peaks (self.ga == -1)")
        ring = "self.ring_%d" % nmask
        R.check(ring in t, "C08.R2", REL, c.lineno, "indexer.find", "mask %d uses %s" % (nmask, ring),
                "candidate list %d is not drawn from ring %s" % (nmask, ring))
    R.shape(nmask == 2, "C08.R2", REL, "indexer.find", "two ring masks built with compress")
    # sentinel agreement over the class
    cls = m.cls("indexer")
    ncmp = 0
    for n in ast.walk(cls):
        if isinstance(n, ast.Compare) and len(n.ops) == 1:
            l, r = nows(src(n.left)), nows(src(n.comparators[0]))
            if (l == "self.ga" or l.startswith("self.ga[") or l == "ga") and isinstance(n.comparators[0], (ast.Constant, ast.UnaryOp)):
                fnn = m.enclosing_function(n)
                if l == "ga" and not (fnn is not None and any(nows(src(a.value)).startswith("self.ga[") for a in assigns_to(fnn, "ga"))):
                    continue
                ncmp += 1
                op = OPS.get(type(n.ops[0]))
                ok = (r == "-1" and op in ("==", "!=", ">")) or (r == "0" and op in ("<", ">="))
                R.check(ok, "C08.R2", REL, n.lineno, m.qualname(fnn) if fnn is not None else "indexer", src(n),
                        "comparison of the grain assignment against something other than the free sentinel -1")
    R.floor("C08.R2", 8, "instances")
    # initial value
    inits = [a for a in ast.walk(cls) if isinstance(a, ast.Assign) and nows(src(a.targets[0])) == "self.ga"]
    for a in inits:
        t = nows(src(a.value))
        fnn = m.enclosing_function(a)
        if t == "labels":
            R.inst("C08.R2", "indexer.%s: self.ga = labels (from score_and_assign: -1 free, >= 0 grain)" % fnn.name)
            continue
        R.check(t.startswith("np.zeros(") and t.endswith("-1"), "C08.R2", REL, a.lineno, m.qualname(fnn), src(a)[:70],
                "grain assignments are not initialised to the free sentinel -1")


# --------------------------------------------------------------------------------------------------
def r3(R, m):
    R.rule("C08.R3", "do_index: cimaged11_omp_set_num_threads(1) is inside a try whose finally restores the value read from "
                     "cimaged11_omp_get_max_threads before it")
    fn = method(m, "do_index")
    sets = [c for c in ast.walk(fn) if isinstance(c, ast.Call) and (dotted(c.func) or "").endswith("cimaged11_omp_set_num_threads")]
    R.shape(len(sets) >= 1, "C08.R3", REL, "do_index", "a call of cimaged11_omp_set_num_threads")
    for c in sets:
        # enclosing try
        t = c
        infinal = False
        tr = None
        while t is not None:
            p = getattr(t, "_parent", None)
            if isinstance(p, ast.Try):
                tr = p
                infinal = any(t is s for s in p.finalbody)
                break
            t = p
        arg = c.args[0] if c.args else None
        if infinal:
            # restores a saved value
            name = nows(src(arg)) if arg is not None else ""
            saved = [a for a in assigns_to(fn, name) if isinstance(a.value, ast.Call)
                     and (dotted(a.value.func) or "").endswith("cimaged11_omp_get_max_threads")]
            first_set = min(x.lineno for x in sets)
            R.check(len(saved) == 1 and saved[0].lineno < first_set, "C08.R3", REL, c.lineno, "do_index", src(c),
                    "the finally clause does not restore the thread count that was read before it was changed")
            continue
        R.check(tr is not None and any(isinstance(s, ast.Expr) and isinstance(s.value, ast.Call)
                                       and (dotted(s.value.func) or "").endswith("cimaged11_omp_set_num_threads")
                                       for s in tr.finalbody), "C08.R3", REL, c.lineno, "do_index", src(c),
                "the OpenMP thread count is changed without a finally that puts it back: after an exception (or return) every "
                "later kernel in the process runs single-threaded")
    # the search loop is inside the try
    loops = [c for c in ast.walk(fn) if isinstance(c, ast.Call) and nows(src(c.func)) in ("indexer.scorethem", "indexer.find")]
    for c in loops:
        t = c
        inside = False
        while t is not None:
            p = getattr(t, "_parent", None)
            if isinstance(p, ast.Try) and any(t is s for s in p.body) and p.finalbody:
                inside = True
            t = p
        R.check(inside, "C08.R3", REL, c.lineno, "do_index", src(c), "the search runs outside the try/finally that restores the threads")
    R.floor("C08.R3", 3, "instances")


# --------------------------------------------------------------------------------------------------
def det3(M):
    return (M[0][0] * (M[1][1] * M[2][2] - M[1][2] * M[2][1]) - M[0][1] * (M[1][0] * M[2][2] - M[1][2] * M[2][0])
            + M[0][2] * (M[1][0] * M[2][1] - M[1][1] * M[2][0]))


def r4(R):
    R.rule("C08.R4", "handedness by construction: with BT = BI.Tc (unitcell.BTmat) and UBI = BT.Tg^T (quickorient), "
                     "det(Tc) == det(Tg) == -1... precisely: det(Tc)*det(Tg) == 1, Tg^T.g1 == |g1| e1 and Tc^T.(B h1) == |B h1| e1, "
                     "Tg^T.g2 and Tc^T.(B h2) have zero third component; hence det(UBI) = det(BI) and UBI.g1 || h1")
    tus = cfront.load(R.root, files=["cdiffraction.c"])
    f = cfront.find_func(tus, "quickorient", CFILE)
    p_ubi, p_bt = f.params[0].name, f.params[1].name
    # identity BT makes the output the transposed lab triad itself
    ident = lambda idx: vn.const(1 if idx[0] in (0, 4, 8) else 0)   # noqa: E731
    sym = vn_c.CSym(f, tus, inputs={p_bt: ident})
    paths = sym.run()
    R.shape(len(paths) == 1, "C08.R4", CFILE, "quickorient", "straight-line code (one path), got %d" % len(paths))
    out = paths[0].out.get(p_ubi) or {}
    R.check(len(out) == 9, "C08.R4", CFILE, f.line, "quickorient", "all nine cells of %s written (%d)" % (p_ubi, len(out)),
            "quickorient leaves part of the matrix holding the input g-vectors")
    if len(out) != 9:
        return
    M = [[out[(3 * i + j,)] for j in range(3)] for i in range(3)]     # rows are u1,u2,u3  (= Tg^T)
    g1 = [vn.atom("%s[%d]" % (p_ubi, k)) for k in range(3)]
    g2 = [vn.atom("%s[%d]" % (p_ubi, 3 + k)) for k in range(3)]
    n1 = vn.app("sqrt", g1[0] * g1[0] + g1[1] * g1[1] + g1[2] * g1[2])

    def mv(M, v):
        return [sum((M[i][k] * v[k] for k in range(3)), vn.const(0)) for i in range(3)]
    dg = det3(M)
    a = mv(M, g1)
    b = mv(M, g2)
    ok1 = vn.equal(a[0], n1) and vn.is_zero(a[1]) and vn.is_zero(a[2])
    R.check(ok1, "C08.R4", CFILE, f.line, "quickorient", "Tg^T.g1 == (|g1|, 0, 0)",
            "the lab triad's first axis is not the unit vector along g1: the orientation does not map g1 onto h1")
    R.check(vn.is_zero(b[2]), "C08.R4", CFILE, f.line, "quickorient", "(Tg^T.g2)[2] == 0",
            "the lab triad's third axis is not perpendicular to g2: g2 is not mapped into the (h1, h2) plane")
    # general BT: the product is BT . M
    sym2 = vn_c.CSym(f, tus)
    p2 = sym2.run()
    out2 = p2[0].out.get(p_ubi) or {}
    BT = [[vn.atom("%s[%d]" % (p_bt, 3 * i + j)) for j in range(3)] for i in range(3)]
    okprod = len(out2) == 9
    if okprod:
        for i in range(3):
            for j in range(3):
                want = sum((BT[i][k] * M[k][j] for k in range(3)), vn.const(0))
                okprod = okprod and vn.equal(out2[(3 * i + j,)], want)
    R.check(okprod, "C08.R4", CFILE, f.line, "quickorient", "UBI_out == BT . (u1;u2;u3)",
            "the result is not the matrix product of the cached crystal triad with the lab triad (row/column order)")

    # ---- Python side
    um = pyfacts.module(R, UREL)
    I = vn_py.Interp({"unitcell": um})
    h1 = np.array([vn.atom("h1[%d]" % k) for k in range(3)], dtype=object)
    h2 = np.array([vn.atom("h2[%d]" % k) for k in range(3)], dtype=object)
    B = np.array([[vn.atom("B[%d][%d]" % (i, j)) for j in range(3)] for i in range(3)], dtype=object)
    Id = np.array([[vn.const(1 if i == j else 0) for j in range(3)] for i in range(3)], dtype=object)
    Tc = I.call("unitcell", "BTmat", h1, h2, B, Id)          # BI = identity: BT is the crystal triad (columns u1,u2,u3)
    R.shape(isinstance(Tc, np.ndarray) and Tc.shape == (3, 3), "C08.R4", UREL, "BTmat", "a 3x3 result from BTmat")
    fn = um.func("BTmat")
    TcT = [[Tc[j][i] for j in range(3)] for i in range(3)]
    c1 = [sum((B[i][k] * h1[k] for k in range(3)), vn.const(0)) for i in range(3)]
    c2 = [sum((B[i][k] * h2[k] for k in range(3)), vn.const(0)) for i in range(3)]
    nc1 = vn.app("sqrt", c1[0] * c1[0] + c1[1] * c1[1] + c1[2] * c1[2])
    a = mv(TcT, c1)
    b = mv(TcT, c2)
    R.check(vn.equal(a[0], nc1) and vn.is_zero(a[1]) and vn.is_zero(a[2]), "C08.R4", UREL, fn.lineno, "BTmat",
            "Tc^T.(B h1) == (|B h1|, 0, 0)", "the crystal triad's first axis is not the unit vector along B.h1")
    R.check(vn.is_zero(b[2]), "C08.R4", UREL, fn.lineno, "BTmat", "(Tc^T.(B h2))[2] == 0",
            "the crystal triad's third axis is not perpendicular to B.h2")
    # BI enters as a left factor
    BI = np.array([[vn.atom("BI[%d][%d]" % (i, j)) for j in range(3)] for i in range(3)], dtype=object)
    BTg = I.call("unitcell", "BTmat", h1, h2, B, BI)
    want = np.array([[sum((BI[i][k] * Tc[k][j] for k in range(3)), vn.const(0)) for j in range(3)] for i in range(3)], dtype=object)
    ok, why = vn_py.same(BTg, want)
    R.check(ok, "C08.R4", UREL, fn.lineno, "BTmat", "BTmat == BI . Tc", "the cached matrix is not BI times the crystal triad: " + why)
    # ---- agreement of the two determinants: substitute the lab inputs by the crystal vectors (same construction => same value)
    dc = det3(TcT)
    sub = {}
    for k in range(3):
        sub["%s[%d]" % (p_ubi, k)] = c1[k]
        sub["%s[%d]" % (p_ubi, 3 + k)] = c2[k]
    symc = vn_c.CSym(f, tus, inputs={p_bt: ident, p_ubi: (lambda idx: sub["%s[%d]" % (p_ubi, idx[0])] if idx[0] < 6
                                                      else vn.atom("%s[%d]" % (p_ubi, idx[0])))})
    pc = symc.run()
    oc = pc[0].out.get(p_ubi) or {}
    Mc = [[oc[(3 * i + j,)] for j in range(3)] for i in range(3)]
    same_triad = all(vn.equal(Mc[i][j], TcT[i][j]) for i in range(3) for j in range(3))
    R.check(same_triad, "C08.R4", UREL, fn.lineno, "BTmat / quickorient", "triad(B h1, B h2) built by BTmat == triad built by quickorient",
            "the crystal triad (Python) and the lab triad (C) are built with different conventions (cross-product order or "
            "normalisation): U = Tg.Tc^-1 is then not the rotation taking the crystal pair onto the observed pair - an "
            "improper or wrong orientation is reported")
    one = vn.equal(dg * dg, vn.const(1))
    R.check(one, "C08.R4", CFILE, f.line, "quickorient", "det(Tg)^2 == 1", "the lab triad is not orthonormal")
    R.note("C08.R4: det(UBI) = det(BI) det(Tc) det(Tg) with det(Tc) == det(Tg) as expressions and det^2 == 1; "
           "the sign of det(B) comes from the cell parameters and is not decided here")
    # call-site wiring in orient: UBI[0] = g1, UBI[1] = g2, quickorient(UBI, BT) with BT from getanglehkls
    of = um.func("unitcell.orient")
    calls = [c for c in ast.walk(of) if isinstance(c, ast.Call) and (dotted(c.func) or "").endswith("quickorient")]
    R.shape(len(calls) == 1, "C08.R4", UREL, "unitcell.orient", "one call of cImageD11.quickorient")
    c = calls[0]
    u = nows(src(c.args[0]))
    rows = {}
    for a_ in ast.walk(of):
        if isinstance(a_, ast.Assign) and isinstance(a_.targets[0], ast.Subscript) and nows(src(a_.targets[0].value)) == u:
            rows[nows(src(a_.targets[0].slice))] = nows(src(a_.value))
    params = [x.arg for x in of.args.args]
    R.check(rows.get("0") == params[2] and rows.get("1") == params[4], "C08.R4", UREL, c.lineno, "unitcell.orient",
            "%s[0] := %s, %s[1] := %s" % (u, rows.get("0"), u, rows.get("1")),
            "quickorient expects the first g-vector in row 0 and the second in row 1 (ring1's peak first): swapped rows pair g1 "
            "with h2")
    fp = um.func("filter_pairs")
    bt_calls = [x for x in ast.walk(fp) if isinstance(x, ast.Call) and dotted(x.func) == "BTmat"]
    R.shape(len(bt_calls) >= 1, "C08.R4", UREL, "filter_pairs", "BTmat call building the cache")
    for x in bt_calls:
        a_ = [nows(src(y)) for y in x.args]
        R.check(len(a_) == 4 and a_[2] == "B" and a_[3] == "BI", "C08.R4", UREL, x.lineno, "filter_pairs", src(x),
                "BTmat(h1, h2, B, BI): B and BI are swapped or replaced")


# --------------------------------------------------------------------------------------------------
def r5(R, m):
    R.rule("C08.R5", "uniqueness := (number of ga[ind] == -1) / (number of ind) with ind = self.getind(UBI); getind selects "
                     "drlv2 < hkl_tol^2 on the peaks of the rings in use")
    fn = method(m, "indexer.scorethem")
    d = assigns_to(fn, "uniqueness")
    R.shape(len(d) == 1, "C08.R5", REL, "indexer.scorethem", "one definition of uniqueness")
    v = d[0].value
    cmps = [c for c in ast.walk(v) if isinstance(c, ast.Compare)]
    R.shape(len(cmps) == 1 and isinstance(v, ast.BinOp) and isinstance(v.op, ast.Div), "C08.R5", REL, "indexer.scorethem",
            "uniqueness = <count of free> / <count>")
    c = cmps[0]
    r = rel(c, True)
    lhsname = nows(src(c.left))
    gdefs = assigns_to(fn, lhsname)
    okga = len(gdefs) == 1 and nows(src(gdefs[0].value)).startswith("self.ga[")
    R.check(okga and r in ((lhsname, "==", "-1"), ("0", ">", lhsname)), "C08.R5", REL, d[0].lineno, "indexer.scorethem", src(c),
            "the numerator does not count the peaks of the candidate that are still free (ga == -1)")
    # numerator: np.sum(np.where(c, 1, 0)) or c.sum() - no complement
    num = v.left
    wh = [x for x in ast.walk(num) if isinstance(x, ast.Call) and (dotted(x.func) or "").endswith("where")]
    for w in wh:
        a_ = [nows(src(y)) for y in w.args[1:]]
        R.check(a_ == ["1", "0"], "C08.R5", REL, w.lineno, "indexer.scorethem", src(w),
                "np.where(cond, 1, 0) counts the free peaks; other constants count something else")
    den = nows(src(v.right))
    R.check(den in ("%s.shape[0]" % lhsname, "len(%s)" % lhsname, "%s.size" % lhsname, "len(ind)", "ind.shape[0]"), "C08.R5", REL,
            d[0].lineno, "indexer.scorethem", "denominator %s" % den, "the fraction is not taken over the candidate's own peaks")
    # getind
    gi = method(m, "indexer.getind")
    t = nows(src(gi))
    tol2 = [a for a in ast.walk(gi) if isinstance(a, (ast.Assign,)) and "hkl_tol" in src(a.value)]
    R.inst("C08.R5", "getind: tolerance expression(s) %s" % [src(a.value)[:50] for a in tol2])
    uses = [x for x in ast.walk(gi) if isinstance(x, ast.Call) and (dotted(x.func) or "").split(".")[-1] in
            ("score_and_assign", "less", "score_gvec_z")]
    R.shape(bool(uses), "C08.R5", REL, "indexer.getind", "a selecting kernel (score_and_assign / np.less)")
    for x in uses:
        R.check("hkl_tol" in src(x) or any(nows(src(y)) in [nows(src(a.targets[0])) for a in tol2] for y in x.args), "C08.R5", REL,
                x.lineno, "indexer.getind", src(x)[:80].replace("\n", " "), "getind selects with a tolerance other than self.hkl_tol")
    # the returned mask is the label handed to the kernel
    rets = [x for x in ast.walk(gi) if isinstance(x, ast.Return) and x.value is not None]
    for x in uses:
        if (dotted(x.func) or "").endswith("score_and_assign") and len(x.args) == 6:
            lab, k = nows(src(x.args[4])), nows(src(x.args[5]))
            R.check(nows(src(x.args[0])) == gi.args.args[1].arg and nows(src(x.args[1])) == "self.gv", "C08.R5", REL, x.lineno,
                    "indexer.getind", "score_and_assign(%s, %s, ...)" % (src(x.args[0]), src(x.args[1])),
                    "getind scores something other than its UBI argument against self.gv")
            R.check(any(nows(src(r_.value)) == "%s==%s" % (lab, k) for r_ in rets), "C08.R5", REL, x.lineno, "indexer.getind",
                    "returns %s with label %s" % ([src(r_.value) for r_ in rets], k),
                    "the returned mask does not select the peaks the kernel labelled for this matrix")
            zero = [a for a in ast.walk(gi) if isinstance(a, ast.Assign) and nows(src(a.targets[0])) == "%s[:]" % lab]
            for a in zero:
                R.check(nows(src(a.value)) != k, "C08.R5", REL, a.lineno, "indexer.getind", src(a),
                        "the scratch label array is pre-filled with the very label that marks an indexed peak")



# --------------------------------------------------------------------------------------------------
def r8(R):
    R.rule("C08.R8", "unitcell.getanglehkls (hkl pairs per pair of ring NUMBERS, input of orient): the cache is dropped whenever the rings "
                     "may have been renumbered - its validity test compares a stamp that makerings rewrites (the ring tolerance) as well as "
                     "the B matrix; otherwise a second ring assignment with another ds tolerance orients peaks with the hkls of other rings")
    UC = "ImageD11/unitcell.py"
    um = pyfacts.module(R, UC)
    fn = um.func("unitcell.getanglehkls")
    mk = um.func("unitcell.makerings")
    attrs_read = lambda node: set(x.attr for x in ast.walk(node) if isinstance(x, ast.Attribute) and isinstance(x.value, ast.Name) and x.value.id == "self"
                                  and isinstance(x.ctx, ast.Load))
    assigned_by_makerings = set(t.attr for a in ast.walk(mk) if isinstance(a, ast.Assign) for t in a.targets
                                if isinstance(t, ast.Attribute) and isinstance(t.value, ast.Name) and t.value.id == "self")
    cache = [a for a in ast.walk(fn) if isinstance(a, ast.Assign) and any(isinstance(t, ast.Attribute) and src(t.value) == "self" for t in a.targets)
             and isinstance(a.value, ast.Dict)]
    R.shape(len(cache) == 1, "C08.R8", UC, "unitcell.getanglehkls", "the statement that starts a new cache dictionary")
    cname = cache[0].targets[0].attr
    reset_if = getattr(cache[0], "_parent", None)
    R.shape(isinstance(reset_if, ast.If), "C08.R8", UC, "unitcell.getanglehkls", "the validity test around the cache reset")
    # what the cached values are computed from (besides the cache itself)
    miss = [i_ for i_ in ast.walk(fn) if isinstance(i_, ast.If) and i_ is not reset_if and isinstance(i_.test, ast.Compare)
            and isinstance(i_.test.ops[0], (ast.NotIn, ast.In)) and cname in src(i_.test)]
    R.shape(len(miss) == 1, "C08.R8", UC, "unitcell.getanglehkls", "the 'key not in cache' branch that computes a missing entry")
    mbody = miss[0].body if isinstance(miss[0].test.ops[0], ast.NotIn) else miss[0].orelse
    inputs = set()
    for b_ in mbody:
        inputs |= attrs_read(b_)
    inputs -= {cname}
    ring_inputs = sorted(inputs & assigned_by_makerings)
    R.shape(bool(ring_inputs), "C08.R8", UC, "unitcell.getanglehkls", "ring tables (attributes written by makerings) among the inputs of the cached pairs")
    tested = attrs_read(reset_if.test) - {cname}
    stamps = sorted((tested & assigned_by_makerings) - set(ring_inputs))
    R.check(bool(stamps), "C08.R8", UC, reset_if.lineno, "unitcell.getanglehkls",
            "validity test reads %s; makerings rewrites %s" % (sorted(tested), stamps or "none of them"),
            "the cached hkl pairs are looked up by ring number and computed from %s, which makerings rebuilds, but the validity test "
            "compares nothing that makerings changes: after makerings(limit, another tolerance) the entries describe other rings" % ring_inputs)
    R.check("B" in tested, "C08.R8", UC, reset_if.lineno, "unitcell.getanglehkls", "validity test compares the B matrix", "a changed cell keeps the old pairs")


# --------------------------------------------------------------------------------------------------
def pair_enumeration(fn, a1, a2):
    """how the two values stored into .ring_1 / .ring_2 range over the ring list.  Returns (verdict, text): verdict 'all' (every
    unordered pair including a ring with itself is visited), 'no-diagonal' (pairs of distinct rings only), 'partial' (some other
    proper subset, text says which) or None when the enumeration is not one of the recognised forms"""
    v1, v2 = a1.value, a2.value

    def binder(name):
        """the loop that binds name and the sequence it ranges over (enumerate / zip-free unwrapping of the target structure)"""
        n = a1
        while n is not None:
            n = getattr(n, "_parent", None)
            if isinstance(n, ast.For):
                def find(t, it):
                    if isinstance(t, ast.Name):
                        return it if t.id == name else None
                    if isinstance(t, (ast.Tuple, ast.List)):
                        # enumerate(X[, start]) binds (index, element of X)
                        if isinstance(it, ast.Call) and src(it.func) == "enumerate" and it.args and len(t.elts) == 2:
                            r = find(t.elts[1], it.args[0])
                            if r is not None:
                                return r
                            if isinstance(t.elts[0], ast.Name) and t.elts[0].id == name:
                                return None
                        for e in t.elts:
                            r = find(e, it)
                            if r is not None:
                                return r
                    return None
                r = find(n.target, n.iter)
                if r is not None:
                    return n, r, None
        return None, None, None

    def root(v):
        """ring value expression -> (variable it depends on, pattern)"""
        names = [x.id for x in ast.walk(v) if isinstance(x, ast.Name)]
        return names
    n1 = [x for x in root(v1)]
    n2 = [x for x in root(v2)]
    cands1 = [(x,) + binder(x) for x in n1 if binder(x)[0] is not None]
    cands2 = [(x,) + binder(x) for x in n2 if binder(x)[0] is not None]
    if len(cands1) != 1 or len(cands2) != 1:
        return None, "loop variables of the two rings"
    (x1, l1, it1, k1), (x2, l2, it2, k2) = cands1[0], cands2[0]
    if l1 is l2:
        # one loop over pairs: itertools.* or a precomputed list
        it = it1
        if isinstance(it, ast.Call):
            fnm = (dotted(it.func) or "").split(".")[-1]
            rep = [k.value for k in it.keywords if k.arg in ("repeat", "r")]
            two = (len(it.args) == 2 and pyfacts.const_int(it.args[1]) == 2) or (rep and pyfacts.const_int(rep[0]) == 2)
            if fnm == "product" and ((len(it.args) == 2 and src(it.args[0]) == src(it.args[1])) or (len(it.args) == 1 and two)):
                return "all", src(it)
            if fnm == "combinations_with_replacement" and two:
                return "all", src(it)
            if fnm in ("combinations", "permutations") and two:
                return "no-diagonal", src(it)
        if isinstance(it, ast.Name):
            # pairs list built by a comprehension / loops over the same ring list
            comps = [c for c in ast.walk(fn) if isinstance(c, ast.Assign) and src(c.targets[0]) == it.id and isinstance(c.value, ast.ListComp)]
            if len(comps) == 1 and len(comps[0].value.generators) == 2:
                g1, g2 = comps[0].value.generators
                if src(g1.iter) == src(g2.iter) and not g1.ifs and not g2.ifs:
                    return "all", src(comps[0].value)[:80]
                if g1.ifs or g2.ifs:
                    tests = [pyfacts.cmp_norm(t) for t in g1.ifs + g2.ifs]
                    a, b = src(g1.target), src(g2.target)
                    if src(g1.iter) == src(g2.iter) and len(tests) == 1 and tests[0] is not None:
                        op, l, r = tests[0]
                        if {l, r} == {a, b}:
                            if op in ("LtE",):
                                return "all", src(comps[0].value)[:80]
                            if op in ("Lt", "NotEq"):
                                return "no-diagonal", src(comps[0].value)[:80]
        return None, "the pair iterable %s" % src(it)[:60]
    # two nested loops
    outer, inner = (l1, l2) if any(x is l2 for x in ast.walk(l1)) else (l2, l1)
    ito, iti = (it1, it2) if outer is l1 else (it2, it1)
    xo = x1 if outer is l1 else x2
    if src(ito) == src(iti) and not (isinstance(ito, ast.Call) and src(ito.func) == "range"):
        return "all", "for %s in %s: for .. in %s" % (xo, src(ito), src(iti))
    if isinstance(ito, ast.Call) and src(ito.func) == "range" and isinstance(iti, ast.Call) and src(iti.func) == "range":
        if src(ito) == src(iti):
            return "all", "%s x %s" % (src(ito), src(iti))
        if len(ito.args) == 1 and len(iti.args) == 2 and src(iti.args[1]) == src(ito.args[0]):
            lo = iti.args[0]
            if src(lo) == xo:
                return "all", "for %s in %s: for .. in %s" % (xo, src(ito), src(iti))
            if isinstance(lo, ast.BinOp) and isinstance(lo.op, ast.Add) and {src(lo.left), src(lo.right)} == {xo, "1"}:
                return "no-diagonal", "for %s in %s: for .. in %s" % (xo, src(ito), src(iti))
            if pyfacts.const_int(lo) == 0:
                return "all", "%s x %s" % (src(ito), src(iti))
    # slices of the same list:  for a in X: for b in X[k:]
    if isinstance(iti, ast.Subscript) and src(iti.value) == src(ito):
        return None, "slice enumeration %s" % src(iti)
    return None, "the nested loops over %s / %s" % (src(ito)[:40], src(iti)[:40])


def r9(R, m):
    """completeness half of the property: 'searching all ring pairs reports every grain'.  A grain may only be reachable from two
    peaks of the same ring (forgen = one ring; only one of the rings has peaks), so the drivers that set ring_1 / ring_2 and call
    find() must visit a ring paired with itself as well as every pair of different rings."""
    R.rule("C08.R9", "the ring-pair drivers (indexer.score_all_pairs, do_index) set ring_1, ring_2 to every unordered pair of the chosen "
                     "rings, a ring paired with itself included, before find()/scorethem()")
    n = 0
    for q in ("indexer.score_all_pairs", "do_index"):
        fn = m.nfunc(q)
        a1 = [a for a in ast.walk(fn) if isinstance(a, ast.Assign) and isinstance(a.targets[0], ast.Attribute) and a.targets[0].attr == "ring_1"]
        a2 = [a for a in ast.walk(fn) if isinstance(a, ast.Assign) and isinstance(a.targets[0], ast.Attribute) and a.targets[0].attr == "ring_2"]
        R.shape(len(a1) == 1 and len(a2) == 1, "C08.R9", REL, q, "one assignment each to .ring_1 and .ring_2")
        verdict, text = pair_enumeration(fn, a1[0], a2[0])
        R.shape(verdict is not None, "C08.R9", REL, q, "the enumeration of ring pairs (%s)" % text)
        n += 1
        R.check(verdict == "all", "C08.R9", REL, a1[0].lineno, q, "ring pairs: %s" % text,
                "only pairs of two different rings are searched: orientations that can only be generated from two peaks of the same ring "
                "(a single ring in forgen / rings_to_use, or only one ring populated) are never tried and their grains are not reported")
    R.floor("C08.R9", 2)


# --------------------------------------------------------------------------------------------------
# partial functions of the math module raise ValueError outside their domain where numpy returns nan.  Confirmed by reading (one line of
# reason each): the sites that exist today on the route every search takes
MATH_OK = {
    ("indexer.find", "math.acos(c)"): "c is a cosine taken from unitcell.anglehkls' own table of ideal angles, |c| <= 1 by construction; logging only",
}
SEARCH_ROUTE = ("indexer.assigntorings", "indexer.find", "indexer.scorethem", "indexer.score_all_pairs", "indexer.getind", "indexer.score",
                "indexer.friedelpairs", "indexer.fight_over_peaks", "do_index", "index", "indexer.__init__", "indexer.reset")


def r10(R, m):
    """completeness: every search entry point (index, do_index, score_all_pairs, find) starts with assigntorings.  An exception there means
    no orientation is tried at all.  The quantities handled on that route depend on the data and on the wavelength the user supplied (or
    the default -1): a math.asin / acos / sqrt / log of such a value raises ValueError where the numpy function used so far gives nan
    (the ring table's two-theta column for rings beyond 2/|wavelength|)."""
    R.rule("C08.R10", "no math.asin / acos / sqrt / log (which raise outside their domain) on the route every search takes "
                      "(assigntorings, find, scorethem, score_all_pairs, getind, ...), other than the confirmed sites")
    PART = ("math.asin", "math.acos", "math.sqrt", "math.log", "math.log10", "math.log2", "math.acosh", "math.atanh")
    n = 0
    for q in SEARCH_ROUTE:
        if not m.has(q):
            continue
        fn = m.func(q)
        n += 1
        for c in ast.walk(fn):
            if isinstance(c, ast.Call) and (dotted(c.func) or "") in PART:
                key = (q, nows(src(c)))
                ok = any(k[0] == q and nows(k[1]) == key[1] for k in MATH_OK)
                const = c.args and pyfacts.const_int(c.args[0]) is not None
                R.check(ok or const, "C08.R10", REL, c.lineno, q, src(c)[:70],
                        "%s raises ValueError when its argument leaves the domain (numpy's %s returns nan): on this route that aborts the search "
                        "before a single orientation is tried, e.g. for rings beyond 2/|wavelength| with the default wavelength -1 or a wavelength "
                        "that does not belong to the g-vectors" % (dotted(c.func), (dotted(c.func) or "").replace("math.a", "np.arc").replace("math.", "np.")))
        R.inst("C08.R10", "%s:%s partial math functions" % (REL, q))
    R.floor("C08.R10", 8)


# --------------------------------------------------------------------------------------------------
def _len_test(t, pol, names):
    """+1: (t with polarity pol) implies len(X) > 0 for an X in names; -1: implies len(X) == 0; 0: neither"""
    if isinstance(t, ast.BoolOp) and isinstance(t.op, ast.And) and pol:
        for v in t.values:
            r_ = _len_test(v, True, names)
            if r_:
                return r_
        return 0
    if isinstance(t, ast.UnaryOp) and isinstance(t.op, ast.Not):
        return _len_test(t.operand, not pol, names)
    if isinstance(t, ast.Call) and pyfacts.dotted(t.func) == "len" and t.args and nows(src(t.args[0])) in names:
        return 1 if pol else -1
    if isinstance(t, (ast.Name, ast.Attribute)) and nows(src(t)) in names:
        return 1 if pol else -1
    if isinstance(t, ast.Compare) and len(t.ops) == 1:
        l_, op, r_ = t.left, t.ops[0], t.comparators[0]
        if isinstance(r_, ast.Call) and pyfacts.dotted(r_.func) == "len":
            l_, r_, op = r_, l_, FLIP.get(type(op), type(op))()
        if isinstance(l_, ast.Call) and pyfacts.dotted(l_.func) == "len" and l_.args and nows(src(l_.args[0])) in names:
            c = pyfacts.const_int(r_)
            if c is None:
                return 0
            sat = lambda n_: {ast.Lt: n_ < c, ast.LtE: n_ <= c, ast.Gt: n_ > c, ast.GtE: n_ >= c, ast.Eq: n_ == c, ast.NotEq: n_ != c}.get(type(op))
            if sat(0) is None:
                return 0
            e, ne = sat(0) == pol, all(sat(k) == pol for k in (1, 2, 50))
            if ne and not e:
                return 1
            if e and not any(sat(k) == pol for k in (1, 2, 50)):
                return -1
    return 0


def r11(R, m):
    """filter_pairs drops every pair of hkls with |cos| >= 0.98, so the table getanglehkls hands to orient can be EMPTY for two rings
    whose reflections are all nearly parallel (orthorhombic 15.3 x 2.2 x 2.5: (001) and (101) are 9.5 degrees apart) while indexer.find
    still proposes pairs of peaks on those rings (it only discards cosines within 1e-5 of +-1).  orient must not index the table then,
    and scorethem must not go on with the orientation of an earlier pair: an exception there aborts score_all_pairs and every ring
    pair after it is never searched."""
    R.rule("C08.R11", "unitcell.orient reads hab[b] / matrs[b] only where the angle table is known not to be empty (filter_pairs may keep no "
                      "pair), and indexer.scorethem uses self.unitcell.UBI only when orient made an orientation")
    um = pyfacts.module(R, UREL)
    fp = um.func("filter_pairs")
    apps = [c for c in ast.walk(fp) if isinstance(c, ast.Call) and isinstance(c.func, ast.Attribute) and c.func.attr == "append"]
    cfgp = pyfacts.PyCFG(fp)
    cond = [c for c in apps if any(True for _ in cfgp.guards(cfgp.node_of(pyfacts.containing_stmt(c))))]
    R.shape(bool(apps) and len(cond) == len(apps), "C08.R11", UREL, "filter_pairs", "the premise: every append to the kept pairs is conditional (the table may be empty)")
    fn = um.func("unitcell.orient")
    tab = [a for a in ast.walk(fn) if isinstance(a, ast.Assign) and isinstance(a.targets[0], ast.Tuple) and isinstance(a.value, ast.Call)
           and src(a.value.func) == "self.getanglehkls"]
    R.shape(len(tab) == 1, "C08.R11", UREL, "unitcell.orient", "hab, c2ab, matrs = self.getanglehkls(ring1, ring2)")
    names = set(e.id for e in tab[0].targets[0].elts if isinstance(e, ast.Name))
    cfg = pyfacts.PyCFG(fn)
    subs = [x for x in ast.walk(fn) if isinstance(x, ast.Subscript) and isinstance(x.value, ast.Name) and x.value.id in names and isinstance(x.ctx, ast.Load)
            and not isinstance(x.slice, ast.Slice)]
    R.shape(len(subs) >= 2, "C08.R11", UREL, "unitcell.orient", "the reads hab[b], matrs[b]")
    n = 0
    early = False
    for r_ in [x for x in ast.walk(fn) if isinstance(x, ast.Return)]:
        if any(_len_test(t, pol, names) == -1 for t, pol in cfg.guards(cfg.node_of(r_))):
            early = True
    seen = set()
    for sub in subs:
        st = pyfacts.containing_stmt(sub)
        if cfg.node_of(st) is None:
            continue                # inside the test of an if / while: the searchsorted neighbour tests, which short-circuit on i > 0
        if any(_len_test(t, pol, names) == 1 for t, pol in cfg.guards(cfg.node_of(st))):
            n += 1
            R.inst("C08.R11", "orient: %s under a non-empty table" % src(sub))
            continue
        # not guarded: where does the index come from?
        idx = sub.slice
        loopdefs = [l for l in ast.walk(fn) if isinstance(l, ast.For) and isinstance(idx, ast.Name) and src(l.target) == idx.id]
        R.shape(len(loopdefs) == 1 and isinstance(loopdefs[0].iter, ast.Name), "C08.R11", UREL, "unitcell.orient", "the loop 'for b in best' that supplies the index of %s" % src(sub))
        bname = loopdefs[0].iter.id
        for d in [a for a in ast.walk(fn) if isinstance(a, ast.Assign) and src(a.targets[0]) == bname]:
            key = (d.lineno, sub.value.id)
            if isinstance(d.value, ast.List) and len(d.value.elts) >= 1:
                if d.lineno in seen:
                    continue
                seen.add(d.lineno)
                n += 1
                g_ok = any(_len_test(t, pol, names) == 1 for t, pol in cfg.guards(cfg.node_of(d)))
                R.check(g_ok, "C08.R11", UREL, d.lineno, "unitcell.orient", "%s = %s indexes %s" % (bname, nows(src(d.value)), "/".join(sorted(set(s_.value.id for s_ in subs)))),
                        "the nearest-cosine branch always yields one index, also when filter_pairs kept no pair of hkls for these rings (all within "
                        "11 degrees of parallel): %s raises IndexError, indexer.scorethem re-raises and score_all_pairs stops before the remaining ring "
                        "pairs are searched (cell 15.3 2.2 2.5 90 90 90, rings (001) / (101), a grain with unassigned peaks left on both)" % src(sub))
            elif isinstance(d.value, ast.Subscript) or isinstance(d.value, ast.Call):
                if d.lineno not in seen:
                    seen.add(d.lineno)
                    n += 1
                    R.inst("C08.R11", "orient: %s = %s (a selection from the table: empty when the table is)" % (bname, src(d.value)[:60]))
            else:
                R.shape(False, "C08.R11", UREL, "unitcell.orient", "the definition %s = %s" % (bname, src(d.value)[:50]))
    # scorethem: after an orient that can come back without an orientation, self.unitcell.UBI is only read when there is one
    sc = method(m, "indexer.scorethem")
    cfs = pyfacts.PyCFG(sc)
    ub = [x for x in ast.walk(sc) if isinstance(x, ast.Attribute) and nows(src(x)) == "self.unitcell.UBI" and isinstance(x.ctx, ast.Load)]
    R.shape(len(ub) >= 1, "C08.R11", REL, "indexer.scorethem", "the reads of self.unitcell.UBI")
    if early:
        for x in ub:
            st = pyfacts.containing_stmt(x)
            if "unitell" in src(st) or any("fitb4" in src(t) and pol for t, pol in cfs.guards(cfs.node_of(st))):
                continue            # the dead fitb4 branch (FIXME in the source, NameError before anything else)
            n += 1
            R.check(any(_len_test(t, pol, {"self.unitcell.UBIlist"}) == 1 for t, pol in cfs.guards(cfs.node_of(st))), "C08.R11", REL, x.lineno, "indexer.scorethem",
                    "self.unitcell.UBI read after orient", "orient returns without an orientation when the angle table is empty; scorethem then scores "
                    "the matrix left over from the previous pair of peaks")
    R.floor("C08.R11", 3)
