"""C07  Every peak is assigned to its best-fitting grain, whatever the order or threads.

Decided: R1 thread/schedule independence of score_and_assign (complete for that clause);
R2 running-minimum shape of the kernel; R3 caller buffer protocol; R4 per-grain g-vectors.
Not decided: myhistogram == label histogram for all label sets; behaviour at exact ties.
"""
import ast
import re

from engine import cfront, crules, definit, omp, pyfacts
from engine.cfront import estr
from engine.pyfacts import src

PID = "C07"
LIB_SITES_FLOOR = 5


def run(R):
    R.level = "other"
    R.assume("OpenMP semantics: private/reduction clauses behave as specified; integer '+' reduction is "
             "order-independent")
    R.assume("grain names / caller-chosen labels are non-negative integers (sentinels must be negative, or differ "
             "from a literal label)")
    tus = cfront.load(R.root, files=["closest.c"])
    f = cfront.find_func(tus, "score_and_assign", "src/closest.c")
    if R.want("C07.R1"):
        r1(R, tus, f)
    if R.want("C07.R2"):
        r2(R, cfront.inlined_func(tus, "score_and_assign", "src/closest.c"))   # helpers the per-peak error was moved into read in place
    if R.want("C07.R3"):
        r3(R)
    if R.want("C07.R4"):
        r4(R)
    if R.want("C07.R5"):
        r5(R)
    if R.want("C07.R6"):
        r6(R)


# --------------------------------------------------------------------------------------------------
def r1(R, tus, f):
    R.rule("C07.R1", "score_and_assign's parallel loop: scalars private/reduced, shared writes only at the "
                     "work-shared index, no cross-iteration reads (E2 S1-S3) => same result for every thread "
                     "count, chunk size and schedule")
    n = omp.report(R, "C07.R1", tus, select=lambda fn: fn.name == "score_and_assign", floor=1)
    an, reps = definit.analyse(f, tus)
    seen = set()
    for name, idx, line, what in reps:
        if (name, idx) in seen:
            continue
        seen.add((name, idx))
        R.violation("C07.R1/E3", f.file, line, f.name, "%s%s" % (name, idx),
                    "local '%s' is read before it is assigned on some path (private copies start undefined)" % name)
    R.inst("C07.R1", "%s:%s definite-initialisation of %d local reads (private copies start undefined)"
           % (f.file, f.name, an.n_reads), ok=not reps)


# --------------------------------------------------------------------------------------------------
def r2(R, f):
    R.rule("C07.R2", "kernel keeps a running minimum: take iff sumsq < tol^2 and sumsq < drlv2[k], storing label and "
                     "error on the same path; the only other write releases labels[k]=-1 when labels[k]==label")
    cfg = f.cfg
    pn = [p.name for p in f.params]
    if len(pn) < 7:
        R.fail("score_and_assign has %d parameters, expected 7" % len(pn))
    p_tol, p_drlv2, p_labels, p_label = pn[2], pn[3], pn[4], pn[5]
    lab_st = crules.stores_to_param(f, p_labels)
    drl_st = crules.stores_to_param(f, p_drlv2)
    if not lab_st:
        R.fail("score_and_assign: no stores to labels found (anchor moved)")
    if not drl_st:
        R.check(False, "C07.R2", f.file, f.line, f.name, "stores to %s" % p_drlv2,
                "the winning error is never stored: every later grain within tolerance steals the peak")
        return
    # induction variable of the work-shared loop
    ompd = [s for s in cfront.swalk(f.body) if s.k == "omp"]
    if len(ompd) != 1 or ompd[0].body.k != "for":
        R.fail("score_and_assign: expected exactly one work-shared loop")
    hdr = omp.loop_header(ompd[0].body)
    if hdr is None:
        R.fail("score_and_assign: loop header not canonical")
    iv = hdr[0]
    takes = []
    releases = []
    for n, x, t in lab_st:
        if estr(t) != "%s[%s]" % (p_labels, iv):
            R.violation("C07.R2", f.file, x.line, f.name, estr(x), "store to labels at an index other than the peak index")
            continue
        if x.k == "asg" and x.op == "=" and estr(x.a[1]) == p_label:
            takes.append((n, x))
        elif x.k == "asg" and x.op == "=" and x.a[1].k == "int" and x.a[1].val < 0:
            releases.append((n, x))
        else:
            R.violation("C07.R2", f.file, x.line, f.name, estr(x),
                        "labels[k] is assigned something other than the label argument or a negative 'unassigned' value")
    R.check(len(takes) == 1 and len(releases) == 1, "C07.R2", f.file, f.line, f.name,
            "stores to %s" % p_labels, "expected exactly one take and one release store to labels, found %d/%d"
            % (len(takes), len(releases)))
    if len(takes) != 1 or len(releases) != 1:
        return
    tn, tx = takes[0]
    g = crules.guard_set(cfg, tn.id)
    # tolerance squared variable: assigned tol*tol
    tolsq = None
    cands = []
    for st, x in cfront.all_exprs(f.body):
        if x.k == "asg" and x.op == "=" and x.a[0].k == "var" and any(y.k == "var" and y.name == p_tol for y in cfront.ewalk(x.a[1])):
            cands.append((x.a[0].name, estr(x.a[1]), x.line))
    for st in cfront.swalk(f.body):
        if st.k == "decl" and st.init is not None and any(y.k == "var" and y.name == p_tol for y in cfront.ewalk(st.init)):
            cands.append((st.var.name, estr(st.init), st.line))
    R.shape(bool(cands), "C07.R2", f.file, f.name, "a local computed from %s (the squared tolerance)" % p_tol)
    for nm, txt, ln in cands:
        if txt.replace(" ", "").strip("()") in ("%s*%s" % (p_tol, p_tol),):
            tolsq = nm
    R.check(tolsq is not None, "C07.R2", f.file, cands[0][2] or f.line, f.name, "tolsq = tol * tol (found %s)" % [c[:2] for c in cands],
            "the squared tolerance is no longer computed as tol*tol")
    err = None
    for op, a, b in g:
        if op in ("<", "<=") and b == "%s[%s]" % (p_drlv2, iv):
            err = a
    R.check(err is not None, "C07.R2", f.file, tx.line, f.name, estr(tx),
            "the take store is not guarded by '<error> < drlv2[k]': a grain with a larger error can steal the peak")
    if err is None:
        return
    R.check(("<", err, tolsq) in g, "C07.R2", f.file, tx.line, f.name, "%s guarded by %s < %s" % (estr(tx), err, tolsq),
            "the take store is not guarded by a strict '%s < %s' test: peaks outside the tolerance are assigned" % (err, tolsq))
    # error store on the same path
    same = [(n, x) for n, x, t in drl_st if x.k == "asg" and x.op == "=" and estr(x.a[1]) == err
            and estr(t) == "%s[%s]" % (p_drlv2, iv)]
    R.check(len(same) == 1 and len(drl_st) == 1, "C07.R2", f.file, tx.line, f.name, "drlv2[k] = %s" % err,
            "drlv2[k] must be stored exactly once, as the winning error (found %d stores, %d matching)" % (len(drl_st), len(same)))
    if same:
        g2 = crules.guard_set(cfg, same[0][0].id)
        R.check(g2 == g, "C07.R2", f.file, same[0][1].line, f.name, "drlv2[k] = %s" % err,
                "label and error are not stored under the same condition: %s vs %s" % (sorted(g2), sorted(g)))
    # release
    rn, rx = releases[0]
    gr = crules.guard_set(cfg, rn.id)
    want = ("==", ) + tuple(sorted(["%s[%s]" % (p_labels, iv), p_label]))
    R.check(want in gr, "C07.R2", f.file, rx.line, f.name, estr(rx),
            "the release store labels[k] = %s is not guarded by labels[k] == label: another grain's peak would be released"
            % estr(rx.a[1]))
    R.check(not (("<", err, tolsq) in gr and any(o in ("<", "<=") and b == "%s[%s]" % (p_drlv2, iv) for o, a, b in gr)),
            "C07.R2", f.file, rx.line, f.name, estr(rx), "release happens on the take path")
    # every peak is compared with this grain: no path of an iteration leaves the loop body (continue / goto / break) before the error of
    # this grain has been computed and tested - a skip that depends on what an earlier grain stored makes the result depend on the
    # order of the grains ("first within tolerance wins" instead of "best fit wins")
    body = ompd[0].body.body
    errdef = [n for n in cfg.find_nodes(lambda n: n.k == "expr" and n.e is not None and n.e.k == "asg" and n.e.a[0].k == "var" and n.e.a[0].name == err)]
    for st in cfront.swalk(body):
        if st.k in ("continue", "break", "goto"):
            ids = cfg.stmt_nodes.get(id(st), [])
            doms = set(cfg.dominators(ids[0])) if ids else set()
            late = any(d.id in doms for d in errdef)
            gs = cfg.guards(ids[0]) if ids else []
            R.check(late, "C07.R2", f.file, st.line, f.name,
                    "'%s' in the per-peak loop%s" % (st.k, (" under " + " && ".join(("%s" if pol else "!(%s)") % estr(e) for e, pol in gs[:3])) if gs else ""),
                    "a peak is skipped for this grain before its error %s is computed and compared with %s[%s]: whether the grain gets the peak then depends "
                    "on what earlier grains stored (order of the grains), not on which grain fits best" % (err, p_drlv2, iv))
    # the error is the squared hkl distance (shape shared with C06.R3, checked there in full)
    sq = None
    for st, x in cfront.all_exprs(f.body):
        if x.k == "asg" and x.op == "=" and x.a[0].k == "var" and x.a[0].name == err:
            sq = x.a[1]
    ok = False
    if sq is not None:
        terms = []

        def flat(e):
            if e.k == "bin" and e.op == "+":
                flat(e.a[0])
                flat(e.a[1])
            else:
                terms.append(e)
        flat(sq)
        ok = len(terms) == 3 and all(t.k == "bin" and t.op == "*" and estr(t.a[0]) == estr(t.a[1]) for t in terms) \
            and len(set(estr(t.a[0]) for t in terms)) == 3
    R.check(ok, "C07.R2", f.file, getattr(sq, "line", f.line), f.name, "%s = sum of three squares" % err,
            "the compared error is not a sum of three distinct squares")


# --------------------------------------------------------------------------------------------------
class BufInterp(pyfacts.AbsInterp):
    """constant-fill abstract interpretation of numpy buffers + lower bounds of integer counters"""

    def __init__(self, fnode, modname):
        self.fnode = fnode
        self.obs = []     # (call node, drlv2 value, labels value, label class, in_loop)
        self.params = set(a.arg for a in fnode.args.args)
        self.loopdepth = 0
        self.loopvars = []

    def join(self, a, b):
        ka, kb = a[0], b[0]
        if ka in ("const", "ks") and kb in ("const", "ks") and a[1] == b[1]:
            return ("ks", a[1])
        if ka == "ge" and kb == "ge":
            return ("ge", min(a[1], b[1]))
        return self.TOP

    def key(self, node):
        return pyfacts.dotted(node)

    def ev(self, e, st):
        if isinstance(e, ast.Constant) and isinstance(e.value, (int, float)) and not isinstance(e.value, bool):
            return ("num", e.value)
        if isinstance(e, ast.UnaryOp) and isinstance(e.op, ast.USub):
            v = self.ev(e.operand, st)
            if v[0] in ("num", "const"):
                return (v[0], -v[1])
            return self.TOP
        if isinstance(e, (ast.Name, ast.Attribute)):
            k = self.key(e)
            if k is not None and k in st:
                return st[k]
            if isinstance(e, ast.Name) and e.id in self.params:
                return ("param", e.id)
            return self.TOP
        if isinstance(e, ast.Call):
            d = pyfacts.dotted(e.func) or ""
            last = d.split(".")[-1]
            if d.split(".")[0] in ("np", "numpy", "n") and last in ("zeros", "ones", "full", "zeros_like", "ones_like"):
                if last.startswith("zeros"):
                    return ("const", 0)
                if last.startswith("ones"):
                    return ("const", 1)
                if last == "full" and len(e.args) >= 2:
                    v = self.ev(e.args[1], st)
                    if v[0] == "num":
                        return ("const", v[1])
                return self.TOP
            if isinstance(e.func, ast.Attribute) and e.func.attr in ("astype", "copy", "ravel", "view"):
                v = self.ev(e.func.value, st)
                if v[0] in ("const", "ks"):
                    return ("const", v[1]) if v[0] == "const" else self.TOP
                return self.TOP
            if d == "int" and len(e.args) == 1:
                a = e.args[0]
                if isinstance(a, ast.Name) and a.id in self.loopvars:
                    return ("name", a.id)
                v = self.ev(a, st)
                if v[0] in ("ge", "num"):
                    return v
                return self.TOP
            return self.TOP
        if isinstance(e, ast.BinOp):
            a, b = self.ev(e.left, st), self.ev(e.right, st)
            if isinstance(e.op, ast.Mult) and (b == ("num", 0) or a == ("num", 0)):
                return ("const", 0)     # x*0 : zero-filled array of x's shape (finite x)
            if a[0] == "const" and b[0] == "num":
                c, n = a[1], b[1]
            elif a[0] == "num" and b[0] == "const" and isinstance(e.op, (ast.Add, ast.Mult)):
                c, n = b[1], a[1]
            elif a[0] == "num" and b[0] == "num":
                c, n = a[1], b[1]
                r = _arith(e.op, c, n)
                return ("num", r) if r is not None else self.TOP
            elif a[0] == "ge" and b[0] == "num" and isinstance(e.op, (ast.Add, ast.Sub)):
                return ("ge", a[1] + (b[1] if isinstance(e.op, ast.Add) else -b[1]))
            else:
                return self.TOP
            r = _arith(e.op, c, n)
            return ("const", r) if r is not None else self.TOP
        return self.TOP

    def simple(self, s, st):
        st = dict(st)
        if isinstance(s, ast.Assign) and len(s.targets) == 1:
            t = s.targets[0]
            self.calls_in(s.value, st)
            if isinstance(t, (ast.Name, ast.Attribute)) and self.key(t):
                v = self.ev(s.value, st)
                if v[0] == "num":
                    v = ("ge", v[1]) if isinstance(v[1], int) else self.TOP
                st[self.key(t)] = v
            elif isinstance(t, ast.Subscript) and self.key(t.value) and isinstance(t.slice, ast.Slice) \
                    and t.slice.lower is None and t.slice.upper is None and t.slice.step is None:
                v = self.ev(s.value, st)
                st[self.key(t.value)] = ("const", v[1]) if v[0] in ("num", "const") else self.TOP
            elif isinstance(t, ast.Subscript) and self.key(t.value):
                st[self.key(t.value)] = self.TOP
            elif isinstance(t, ast.Tuple):
                for x in ast.walk(t):
                    if isinstance(x, (ast.Name, ast.Attribute)) and self.key(x):
                        st[self.key(x)] = self.TOP
            return st
        if isinstance(s, ast.AugAssign) and self.key(s.target):
            k = self.key(s.target)
            cur = st.get(k, self.TOP)
            v = self.ev(s.value, st)
            if cur[0] == "ge" and v[0] == "num" and isinstance(s.op, (ast.Add, ast.Sub)):
                st[k] = ("ge", cur[1] + (v[1] if isinstance(s.op, ast.Add) else -v[1]))
            elif cur[0] == "const" and v[0] == "num":
                r = _arith(s.op, cur[1], v[1])
                st[k] = ("const", r) if r is not None else self.TOP
            else:
                st[k] = self.TOP
            return st
        if isinstance(s, ast.Expr):
            self.calls_in(s.value, st)
            return st
        if isinstance(s, (ast.Return, ast.Assert)):
            if getattr(s, "value", None) is not None:
                self.calls_in(s.value, st)
        return st

    def calls_in(self, e, st):
        for c in ast.walk(e):
            if not isinstance(c, ast.Call):
                continue
            d = pyfacts.dotted(c.func) or ""
            last = d.split(".")[-1]
            if last == "score_and_assign" and len(c.args) >= 6:
                dv = self.ev(c.args[3], st)
                lv = self.ev(c.args[4], st)
                lab = self.ev(c.args[5], st)
                if isinstance(c.args[5], ast.Name) and c.args[5].id in self.enumvars:
                    lab = ("ge", 0, "enumerate index")
                self.obs.append((c, dv, lv, lab, list(self.loopvars)))
                for a in (c.args[3], c.args[4]):
                    k = self.key(a)
                    if k:
                        v = st.get(k, self.TOP)
                        st[k] = ("ks", v[1]) if v[0] in ("const", "ks") else self.TOP
            elif d.split(".")[0] in ("np", "numpy") and last in ("subtract", "add", "multiply") and len(c.args) == 3:
                k = self.key(c.args[2])
                if k:
                    a, b = self.ev(c.args[0], st), self.ev(c.args[1], st)
                    op = {"subtract": ast.Sub(), "add": ast.Add(), "multiply": ast.Mult()}[last]
                    if a[0] == "const" and b[0] == "num":
                        r = _arith(op, a[1], b[1])
                        st[k] = ("const", r) if r is not None else self.TOP
                    else:
                        st[k] = self.TOP
            else:
                # unknown call receiving a tracked buffer may mutate it, except known pure helpers
                if last in ("print", "len", "range", "enumerate", "tqdm", "zip", "format", "info", "debug", "transpose",
                            "astype", "addcolumn"):
                    continue
                for a in list(c.args) + [kw.value for kw in c.keywords]:
                    k = self.key(a) if isinstance(a, (ast.Name, ast.Attribute)) else None
                    if k and k in st and st[k][0] in ("const", "ks"):
                        st[k] = self.TOP

    enumvars = ()

    def bind_loop_target(self, s, st):
        super(BufInterp, self).bind_loop_target(s, st)

    def run_stmt(self, s, st):
        if isinstance(s, ast.For):
            names = [n.id for n in ast.walk(s.target) if isinstance(n, ast.Name)]
            self.loopvars = self.loopvars + names
            old_enum = self.enumvars
            it = s.iter
            if isinstance(it, ast.Call) and pyfacts.dotted(it.func) == "enumerate" and isinstance(s.target, ast.Tuple) \
                    and isinstance(s.target.elts[0], ast.Name):
                self.enumvars = tuple(self.enumvars) + (s.target.elts[0].id,)
            out = super(BufInterp, self).run_stmt(s, st)
            self.enumvars = old_enum
            self.loopvars = self.loopvars[:-len(names)] if names else self.loopvars
            return out
        return super(BufInterp, self).run_stmt(s, st)


def _arith(op, a, b):
    try:
        if isinstance(op, ast.Add):
            return a + b
        if isinstance(op, ast.Sub):
            return a - b
        if isinstance(op, ast.Mult):
            return a * b
    except Exception:
        return None
    return None


def r3(R):
    R.rule("C07.R3", "at every library call of score_and_assign: drlv2 buffer (re)initialised on every path to a "
                     "constant > 0.75, labels buffer to a sentinel that can never equal a label, labels passed in a "
                     "grain loop are distinct per iteration")
    nsites = 0
    for rel in pyfacts.library_files(R.root, R.tier):
        m = pyfacts.module(R, rel)
        if "score_and_assign" not in m.text:
            continue
        calls = [c for name, c in pyfacts.kernel_calls(m.tree, names=("score_and_assign",))]
        fns = []
        for c in calls:
            fn = m.enclosing_function(c)
            if fn is None:
                R.violation("C07.R3", rel, c.lineno, "<module>", src(c)[:80], "kernel called at module level")
                continue
            if fn not in fns:
                fns.append(fn)
        for fn in fns:
            qual = m.qualname(fn)
            try:
                fn = m.ifunc(qual)          # module-level helpers that prepare the buffers are read in place
            except Exception:
                pass
            bi = BufInterp(fn, rel)
            bi.run_block(fn.body, {})
            seen = {}
            for c, dv, lv, lab, loops in bi.obs:
                seen[id(c)] = (c, dv, lv, lab, loops)   # last fixpoint round wins (most joined state)
            for c, dv, lv, lab, loops in seen.values():
                nsites += 1
                site = "%s:%s score_and_assign(..., %s, %s, %s)" % (rel, qual, src(c.args[3]), src(c.args[4]), src(c.args[5]))
                okd = dv[0] in ("const", "ks") and dv[1] > 0.75
                R.check(okd, "C07.R3", rel, c.lineno, qual, "drlv2 buffer %s = %s" % (src(c.args[3]), _show(dv)),
                        "the error buffer is not (re)initialised on every path to a constant > 0.75 before the first "
                        "call: a stale or too-small error lets no grain (or the wrong one) win", desc=site + " drlv2=%s" % _show(dv))
                if lv[0] not in ("const", "ks"):
                    R.check(False, "C07.R3", rel, c.lineno, qual, "labels buffer %s = %s" % (src(c.args[4]), _show(lv)),
                            "the labels buffer is not initialised on every path to a constant sentinel before the first call")
                    continue
                sent = lv[1]
                if lab[0] == "ge" and len(lab) == 2 and False:
                    pass
                if lab[0] == "ge":
                    # literal (exact) when not inside loop and assigned once: treat ge(n) from a literal argument
                    exact = isinstance(c.args[5], ast.Constant)
                    if exact:
                        ok = sent != c.args[5].value
                        why = "sentinel %r equals the literal label" % (sent,)
                    else:
                        ok = sent < 0 and lab[1] >= 0
                        why = ("labels are initialised to %r but the label argument %s takes values >= %d: a peak that no "
                               "grain indexes is indistinguishable from one assigned to grain %r" % (sent, src(c.args[5]), lab[1], sent)
                               if sent >= 0 else "label lower bound %d is negative" % lab[1])
                elif lab[0] == "num":
                    ok = sent != lab[1]
                    why = "sentinel %r equals the literal label" % (sent,)
                elif lab[0] in ("name", "param"):
                    ok = sent < 0
                    why = ("labels are initialised to %r but the label is %s (%s): it collides whenever that value is %r"
                           % (sent, src(c.args[5]), "caller-chosen" if lab[0] == "param" else "a grain name", sent))
                else:
                    ok = False
                    why = "cannot classify the label argument %s" % src(c.args[5])
                R.check(ok, "C07.R3", rel, c.lineno, qual, "labels buffer %s initialised to %r, label %s" % (src(c.args[4]), sent, src(c.args[5])),
                        why, desc=site + " labels=%s label=%s" % (_show(lv), _show(lab)))
                # injective labels inside a grain loop
                if loops:
                    inj = (lab[0] == "ge" and not isinstance(c.args[5], ast.Constant)) or lab[0] == "name"
                    R.check(inj, "C07.R3", rel, c.lineno, qual, "label %s inside loop over %s" % (src(c.args[5]), ",".join(loops)),
                            "inside a loop over grains the label must differ per iteration (enumerate index, counter, or grain name)")
    R.floor("C07.R3", 2 * LIB_SITES_FLOOR, "call-site obligations")
    R.extra["score_and_assign_sites"] = nsites


def _show(v):
    return "%s(%s)" % (v[0], ",".join(str(x) for x in v[1:])) if len(v) > 1 else v[0]


# --------------------------------------------------------------------------------------------------
def r4(R):
    R.rule("C07.R4", "refinegrains.assignlabels: within one grain iteration compute_gv gets that grain's translation and "
                     "writes the gv array that score_and_assign then reads with that grain's ubi")
    m = pyfacts.module(R, "ImageD11/refinegrains.py")
    fn = m.func("refinegrains.assignlabels")
    found = 0
    for loop in ast.walk(fn):
        if not isinstance(loop, ast.For):
            continue
        kc = [(n, c) for n, c in pyfacts.kernel_calls(loop, names=("compute_gv", "score_and_assign"))]
        inner_loops = [x for x in ast.walk(loop) if isinstance(x, (ast.For, ast.While)) and x is not loop]
        kc = [(n, c) for n, c in kc if not any(c in list(ast.walk(il)) for il in inner_loops)]
        names = [n for n, c in kc]
        if "score_and_assign" not in names:
            continue
        found += 1
        qual = "refinegrains.assignlabels"
        cg = [c for n, c in kc if n == "compute_gv"]
        sa = [c for n, c in kc if n == "score_and_assign"]
        ok = len(cg) == 1 and len(sa) == 1
        R.check(ok, "C07.R4", m.rel, loop.lineno, qual, "grain loop kernels %s" % names,
                "expected one compute_gv followed by one score_and_assign per grain iteration")
        if not ok:
            continue
        cg, sa = cg[0], sa[0]
        cfg = pyfacts.PyCFG(fn)
        n_cg, n_sa = cfg.node_of(pyfacts.containing_stmt(cg)), cfg.node_of(pyfacts.containing_stmt(sa))
        head = cfg.node_of(loop)
        dom = n_cg is not None and n_sa is not None and cfg.dominates(n_cg, n_sa) and cfg.dominates(head, n_cg)
        R.check(dom, "C07.R4", m.rel, sa.lineno, qual, "compute_gv dominates score_and_assign inside the grain iteration",
                "on some path a grain is scored without its g-vectors having been recomputed for its own position in "
                "this iteration")
        # grain object of the iteration
        gvars = {}
        loopnames = set(n.id for n in ast.walk(loop.target) if isinstance(n, ast.Name))
        for s in loop.body:
            if isinstance(s, ast.Assign) and isinstance(s.targets[0], ast.Name):
                used = set(n.id for n in ast.walk(s.value) if isinstance(n, ast.Name))
                if used & loopnames:
                    gvars[s.targets[0].id] = s
        t_arg = cg.args[6] if len(cg.args) > 6 else None
        gv_out = cg.args[7] if len(cg.args) > 7 else None
        ubi_arg, gv_in = sa.args[0], sa.args[1]
        tb = pyfacts.dotted(t_arg) if t_arg is not None else None
        ub = pyfacts.dotted(ubi_arg)
        okobj = tb is not None and ub is not None and tb.split(".")[0] == ub.split(".")[0] and tb.split(".")[0] in gvars \
            and tb.endswith(".translation") and ub.endswith(".ubi")
        R.check(okobj, "C07.R4", m.rel, sa.lineno, qual, "compute_gv(t=%s) / score_and_assign(ubi=%s)" % (src(t_arg) if t_arg is not None else None, src(ubi_arg)),
                "translation and ubi must come from the same per-iteration grain object")
        R.check(gv_out is not None and src(gv_out) == src(gv_in), "C07.R4", m.rel, sa.lineno, qual,
                "gv buffer %s -> %s" % (src(gv_out) if gv_out is not None else None, src(gv_in)),
                "score_and_assign must read the g-vector array compute_gv has just written for this grain")
    R.floor("C07.R4", 4)


# --------------------------------------------------------------------------------------------------
def r5(R):
    R.rule("C07.R5", "per-grain peak counts are taken from the final label array: the value score_and_assign returns (peaks the grain "
                     "held at the time of that call, before later grains competed) is never kept as a count; indexer.fight_over_peaks "
                     "computes self.gas from the labels after the loop over all grains")
    nsite = 0
    for rel in pyfacts.library_files(R.root, R.tier):
        mm = pyfacts.module(R, rel)
        if "score_and_assign" not in mm.text:
            continue
        for nme, c in pyfacts.kernel_calls(mm.tree, names=("score_and_assign",)):
            nsite += 1
            fn = mm.enclosing_function(c)
            q = mm.qualname(fn) if fn is not None else "<module>"
            st = pyfacts.containing_stmt(c)
            if isinstance(st, ast.Expr):
                R.inst("C07.R5", "%s:%s result of score_and_assign not kept" % (rel, q))
                continue
            kept = None
            if isinstance(st, ast.Assign) and st.value is c and len(st.targets) == 1 and isinstance(st.targets[0], ast.Name):
                nm = st.targets[0].id
                uses = []
                for x in ast.walk(fn if fn is not None else mm.tree):
                    if isinstance(x, ast.Name) and x.id == nm and isinstance(x.ctx, ast.Load):
                        par = getattr(x, "_parent", None)
                        while par is not None and not isinstance(par, (ast.Call, ast.stmt)):
                            par = getattr(par, "_parent", None)
                        if isinstance(par, ast.Call) and (src(par.func) in ("print",) or (pyfacts.dotted(par.func) or "").split(".")[0] in ("logging", "logger", "log")):
                            continue
                        uses.append(x)
                kept = ("used at line(s) %s" % sorted(set(u.lineno for u in uses))) if uses else None
            else:
                kept = "stored by '%s'" % src(st)[:60]
            R.check(kept is None, "C07.R5", rel, c.lineno, q, "value returned by score_and_assign is not kept (%s)" % (kept or "unused / printed only"),
                    "the number of peaks a grain held when it was scored is kept as its count: peaks taken over by later, better "
                    "fitting grains are never subtracted, so the counts no longer equal the histogram of the final labels and "
                    "depend on the order of the grains")
    if nsite < 2:
        R.fail("C07.R5 found %d library calls of score_and_assign, expected at least 2" % nsite)
    m = pyfacts.module(R, "ImageD11/indexing.py")
    fn = m.nfunc("indexer.fight_over_peaks")
    loops = [l for l in ast.walk(fn) if isinstance(l, (ast.For, ast.While)) and any(n_ == "score_and_assign" for n_, c_ in pyfacts.kernel_calls(l))]
    gas = [a for a in ast.walk(fn) if isinstance(a, ast.Assign) and any(src(t) == "self.gas" for t in a.targets)]
    R.shape(len(loops) == 1 and len(gas) >= 1, "C07.R5", "ImageD11/indexing.py", "indexer.fight_over_peaks", "the grain loop and the assignment of self.gas")
    kc = [c_ for n_, c_ in pyfacts.kernel_calls(loops[0]) if n_ == "score_and_assign"][0]
    lab = src(kc.args[4]) if len(kc.args) >= 5 else None
    for a in gas:
        t = pyfacts.resolved_src(fn, a.value, 4, keep=("self", lab or "labels"))
        # everything the stored value is computed from, through all assignments after the grain loop (a histogram written out in
        # several statements re-uses a name)
        end_ = getattr(loops[0], "end_lineno", loops[0].lineno)
        clo, texts, grew = set(x.id for x in ast.walk(a.value) if isinstance(x, ast.Name)), [t], True
        while grew:
            grew = False
            for st_ in ast.walk(fn):
                if isinstance(st_, ast.Assign) and st_.lineno > end_ and st_ is not a and \
                        set(x.id for t_ in st_.targets for x in ast.walk(t_) if isinstance(x, ast.Name)) & clo:
                    new_ = set(x.id for x in ast.walk(st_.value) if isinstance(x, ast.Name)) - clo
                    if src(st_.value) not in texts:
                        texts.append(src(st_.value))
                    if new_:
                        clo |= new_
                        grew = True
        tt = " ; ".join(texts)
        ok = lab is not None and (lab in t or lab in clo) and a.lineno > end_ and \
            re.search(r"(histogram|bincount|myhistogram|searchsorted|unique|count_nonzero|==)", tt) is not None
        R.check(ok, "C07.R5", "ImageD11/indexing.py", a.lineno, "indexer.fight_over_peaks", "self.gas = histogram of %s after all grains competed" % lab,
                "the per-grain counts are not computed from the final label array: %s" % t[:80])


# --------------------------------------------------------------------------------------------------
def r6(R):
    """fight_over_peaks turns the final labels into per-grain counts with myhistogram(labels, bins) where bins = -0.5, 0.5, ... : grain g
    owns the count of bin [g - 0.5, g + 0.5).  Whatever myhistogram does, every value it returns has to be computed from the VALUES
    of the bin edges - a return value that knows 'bins' only through len(bins) places the counts relative to something else (the
    smallest label present, zero ...) and is shifted whenever that something is not the first edge."""
    REL = "ImageD11/indexing.py"
    R.rule("C07.R6", "indexing.myhistogram(data, bins): every returned value depends on the values of the bin edges (not only on len(bins)); "
                     "fight_over_peaks passes unit bins starting at -0.5 so that entry g is the count of label g")
    m = pyfacts.module(R, REL)
    fn = m.func("myhistogram")
    pn = [a.arg for a in fn.args.args]
    R.shape(len(pn) == 2, "C07.R6", REL, "myhistogram", "the two parameters (data, bins)")
    data, bins = pn

    def value_use(e):
        """does e (with the assignments it depends on) read the values of bins?"""
        seen = set()

        def walk(x, d):
            for y in ast.walk(x):
                if isinstance(y, ast.Name) and isinstance(y.ctx, ast.Load):
                    if y.id == bins:
                        par = getattr(y, "_parent", None)
                        if isinstance(par, ast.Call) and src(par.func) == "len":
                            continue
                        if isinstance(par, ast.Attribute) and par.attr in ("shape", "size", "ndim", "dtype"):
                            continue
                        return True
                    if d > 0 and y.id not in seen and y.id not in pn:
                        seen.add(y.id)
                        for st in ast.walk(fn):
                            if isinstance(st, ast.Assign) and any(isinstance(t, ast.Name) and t.id == y.id for tt in st.targets for t in ast.walk(tt)) and st.lineno <= x.lineno:
                                if walk(st.value, d - 1):
                                    return True
            return False
        return walk(e, 5)
    rets = [r for r in ast.walk(fn) if isinstance(r, ast.Return) and r.value is not None]
    R.shape(bool(rets), "C07.R6", REL, "myhistogram", "a return statement")
    for r in rets:
        R.check(value_use(r.value), "C07.R6", REL, r.lineno, "myhistogram", "return %s reads the bin edges" % src(r.value)[:60],
                "this return value uses 'bins' only through its length: the counts are positioned relative to something else than the first bin "
                "edge (e.g. the smallest label present), so when no peak is left unassigned (no label -1) every grain is credited with the "
                "count of the next one")
    fo = m.func("indexer.fight_over_peaks")
    calls = [c for c in ast.walk(fo) if isinstance(c, ast.Call) and src(c.func) == "myhistogram"]
    R.shape(len(calls) == 1 and len(calls[0].args) == 2, "C07.R6", REL, "indexer.fight_over_peaks", "the myhistogram(labels, bins) call")
    b = pyfacts.resolved_src(fo, calls[0].args[1], 3, keep=("self",)).replace(" ", "")
    R.check(b.startswith("np.arange(-0.5,") or b.startswith("numpy.arange(-0.5,"), "C07.R6", REL, calls[0].lineno, "indexer.fight_over_peaks",
            "bins = arange(-0.5, ...) (%s)" % b[:60], "the bins no longer start half a unit below label 0: grain g's count is not entry g")
