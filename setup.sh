#!/bin/sh
# offline setup: nothing is installed or built; only verify the tools the checks parse with
set -e
command -v clang-14 >/dev/null || { echo "clang-14 missing"; exit 1; }
/venv/bin/python -c "import networkx, numpy.f2py.crackfortran" || { echo "python deps missing"; exit 1; }
echo '#include <omp.h>
int main(void){return omp_get_thread_num();}' | clang-14 -fsyntax-only -fopenmp -I"$(dirname "$0")/stubs" -x c - || { echo "clang cannot parse with stub omp.h"; exit 1; }
echo setup ok
